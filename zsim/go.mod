module zsim

go 1.26.8

require (
	github.com/getlantern/bytemap v0.0.0-20210122162547-b07440a617f0
	github.com/getlantern/golog v0.0.0-20210606115803-bce9f9fe5a5f
	github.com/getlantern/wal v0.0.0-20220217194315-e4eac848dbd1
	github.com/getlantern/zenodb v0.0.0
	github.com/golang/snappy v0.0.3
	github.com/gorilla/mux v1.7.1
	github.com/gorilla/securecookie v1.1.1
)

require (
	github.com/HdrHistogram/hdrhistogram-go v1.1.0 // indirect
	github.com/Workiva/go-datastructures v1.0.53 // indirect
	github.com/alicebob/gopher-json v0.0.0-20200520072559-a9ecdc9d1d3a // indirect
	github.com/alicebob/miniredis/v2 v2.15.1 // indirect
	github.com/aristanetworks/goarista v0.0.0-20190502180301-283422fc1708 // indirect
	github.com/boltdb/bolt v1.3.1 // indirect
	github.com/cespare/xxhash/v2 v2.1.1 // indirect
	github.com/cloudfoundry/gosigar v1.1.0 // indirect
	github.com/davecgh/go-spew v1.1.1 // indirect
	github.com/dgryski/go-rendezvous v0.0.0-20200823014737-9f7001d12a5f // indirect
	github.com/dustin/go-humanize v1.0.0 // indirect
	github.com/getlantern/context v0.0.0-20190109183933-c447772a6520 // indirect
	github.com/getlantern/elevate v0.0.0-20200430163644-2881a121236d // indirect
	github.com/getlantern/errors v1.0.1 // indirect
	github.com/getlantern/goexpr v0.0.0-20211215215226-4cdd4fd2847b // indirect
	github.com/getlantern/hex v0.0.0-20190417191902-c6586a6fe0b7 // indirect
	github.com/getlantern/hidden v0.0.0-20201229170000-e66e7f878730 // indirect
	github.com/getlantern/keyman v0.0.0-20210622061955-aa0d47d4932c // indirect
	github.com/getlantern/msgpack v3.1.4+incompatible // indirect
	github.com/getlantern/mtime v0.0.0-20170117193331-ba114e4a82b0 // indirect
	github.com/getlantern/ops v0.0.0-20200403153110-8476b16edcd6 // indirect
	github.com/getlantern/redis-utils v0.0.0-20210823133122-d4f0e525e095 // indirect
	github.com/getlantern/sqlparser v0.0.0-20171012210704-a879d8035f3c // indirect
	github.com/getlantern/tlsdefaults v0.0.0-20171004213447-cf35cfd0b1b4 // indirect
	github.com/getlantern/uuid v1.2.0 // indirect
	github.com/getlantern/vtime v0.0.0-20160810174823-dc1e573cf991 // indirect
	github.com/getlantern/yaml v0.0.0-20190801163808-0c9bb1ebf426 // indirect
	github.com/go-redis/redis/v8 v8.11.3 // indirect
	github.com/go-stack/stack v1.8.1 // indirect
	github.com/golang/protobuf v1.5.2 // indirect
	github.com/google/uuid v1.3.0 // indirect
	github.com/hashicorp/golang-lru v0.5.4 // indirect
	github.com/oschwald/geoip2-golang v1.5.0 // indirect
	github.com/oschwald/maxminddb-golang v1.8.0 // indirect
	github.com/oxtoacart/bpool v0.0.0-20190530202638-03653db5a59c // indirect
	github.com/oxtoacart/emsort v0.0.0-20160911032127-e467347e3354 // indirect
	github.com/pmezard/go-difflib v1.0.0 // indirect
	github.com/reflog/minisentinel v0.0.0-20210817104530-e0dd88cb8bc6 // indirect
	github.com/retailnext/hllpp v1.0.0 // indirect
	github.com/rickar/props v0.0.0-20170718221555-0b06aeb2f037 // indirect
	github.com/shirou/gopsutil v2.18.12+incompatible // indirect
	github.com/spaolacci/murmur3 v1.1.0 // indirect
	github.com/stretchr/testify v1.7.0 // indirect
	github.com/xwb1989/sqlparser v0.0.0-20180606152119-120387863bf2 // indirect
	github.com/yuin/gopher-lua v0.0.0-20210529063254-f4c35e4016d9 // indirect
	golang.org/x/crypto v0.0.0-20200622213623-75b288015ac9 // indirect
	golang.org/x/net v0.0.0-20210610132358-84b48f89b13b // indirect
	golang.org/x/sys v0.0.0-20210608053332-aa57babbf139 // indirect
	golang.org/x/text v0.3.6 // indirect
	google.golang.org/genproto v0.0.0-20180817151627-c66870c02cf8 // indirect
	google.golang.org/grpc v1.22.1 // indirect
	google.golang.org/protobuf v1.26.0 // indirect
	gopkg.in/yaml.v3 v3.0.0-20210107192922-496545a6307b // indirect
)

replace github.com/getlantern/zenodb => /repo
