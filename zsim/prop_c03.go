package zsim

import (
	"encoding/binary"
	"bytes"
	"fmt"
	"io"
	"os"
	"path/filepath"
	"strings"

	"github.com/golang/snappy"
	"time"
)

func init() {
	register(&PropDef{ID: "C03", Gen: genC03, Exec: execC03})
}

func genBattery(r *Rng, p *Plan, u *Universe, o QGenOpts, n int) []string {
	var qs []string
	for i := range p.Tables {
		qs = append(qs, "SELECT * FROM "+p.Tables[i].Name)
	}
	for i := 0; i < n; i++ {
		t := &p.Tables[r.Intn(len(p.Tables))]
		qs = append(qs, genQuery(r, t, u, o).SQL())
	}
	return qs
}

func genC03(seed uint64, tier string) *Plan {
	r := NewRng(seed, 3)
	u := genUniverse(r)
	p := &Plan{Prop: "C03", Seed: seed, World: "S-twin"}
	p.Cfg.CoalesceNanos = int64(time.Millisecond)
	p.Cfg.VirtualTime = r.Bool(0.3)
	p.Cfg.Extra = map[string]int64{}
	p.Tables = genSchema(r, u, SchemaOpts{MaxTables: 2, AllowRaw: true, RetMin: 30 * time.Minute, RetMax: 3 * time.Hour})
	// B gets its own flush latencies and possibly a memory cap (sorted flushes)
	p.Cfg.Extra["bMinFlush"] = int64(PickOne(r, []time.Duration{time.Millisecond, 10 * time.Millisecond, time.Second, 30 * time.Second}))
	p.Cfg.Extra["bMaxFlush"] = p.Cfg.Extra["bMinFlush"] * int64(PickOne(r, []int{1, 5, 100}))
	if r.Bool(0.4) {
		p.Cfg.Extra["bMemRatio"] = 95
	}
	if p.Cfg.Extra["bMemRatio"] > 0 && len(p.Tables) == 1 && r.Bool(0.4) {
		// a cap of a few kilobytes: B is under permanent memory pressure, every
		// flush is a sorted one whose sorter (budget = cap/10) spills to several
		// temporary files and merges them
		p.Cfg.Extra["bMemTiny"] = 1
	}
	if r.Bool(0.3) {
		p.Cfg.Extra["aNoTimer"] = 1 // A only flushes when forced
	}
	span := int64(PickOne(r, []time.Duration{20 * time.Second, 2 * time.Minute, 5 * time.Minute}))
	n := r.Range(5, 60)
	manyFlushes := r.Bool(0.25)
	streams := streamsOf(p.Tables)
	o := AllQ
	o.Limit = false
	o.DataSpan = span
	var pts []*Point
	for i := 0; i < n; i++ {
		pt := genPoint(r, u, p.Tables, PointOpts{SpanNanos: span, Streams: streams, NoOdd: true}, pts, i)
		pts = append(pts, pt)
		p.Ops = append(p.Ops, Op{K: "ins", Dt: PickOne(r, insDts), P: pt})
		fp := 0.08
		if manyFlushes {
			fp = 0.5
		}
		if r.Bool(fp) {
			p.Ops = append(p.Ops, Op{K: PickOne(r, []string{"flushA", "flushB", "flushB"}), Dt: PickOne(r, insDts)})
		}
		if r.Bool(0.04) {
			// a flush whose first attempt cannot read the existing file to the
			// end (transient read error) and is retried
			p.Ops = append(p.Ops, Op{K: "flushRetry", S: PickOne(r, []string{"A", "B"}), Dt: PickOne(r, insDts)})
		}
		if r.Bool(0.12) {
			p.Ops = append(p.Ops, Op{K: "adv", Dt: PickOne(r, advDts)})
		}
		// a virtual clock is volatile (it restarts at the zero time and follows
		// the points received since), so after a restart the twins would not
		// share "now" any more: restarts only with the real (simulated) clock
		if r.Bool(0.03) && !p.Cfg.VirtualTime {
			p.Ops = append(p.Ops, Op{K: PickOne(r, []string{"restartA", "restartB"}), Dt: int64(time.Millisecond)})
		}
		// memory-pressure flushes pick "the largest memstore"; with several
		// tables ties are broken by Go map order, which the plan cannot decide,
		// so they are only injected into single-table plans
		if r.Bool(0.06) && p.Cfg.Extra["bMemRatio"] > 0 && len(p.Tables) == 1 {
			p.Ops = append(p.Ops, Op{K: "mempressB", N: int64(r.Range(1, 4))})
		}
		if r.Bool(0.05) {
			p.Ops = append(p.Ops, Op{K: "check", Dt: PickOne(r, insDts), Strs: genBattery(r, p, u, o, r.Range(1, 3)), S: PickOne(r, []string{"", "A", "B"})})
		}
	}
	p.Ops = append(p.Ops, Op{K: "check", Dt: 1000, Strs: genBattery(r, p, u, o, r.Range(2, 6)), S: PickOne(r, []string{"A", "B"})})
	maybeYield(r, p, 0.4)
	return p
}

func tablesWithFlush(ts []TableDef, minF, maxF int64) []TableDef {
	out := make([]TableDef, len(ts))
	copy(out, ts)
	for i := range out {
		out[i].MinFlush, out[i].MaxFlush = minF, maxF
	}
	return out
}

func execC03(e *Env, p *Plan) error {
	tablesA := p.Tables
	if p.Cfg.Extra["aNoTimer"] > 0 {
		tablesA = tablesWithFlush(p.Tables, int64(time.Hour), int64(1000*time.Hour))
	}
	tablesB := tablesWithFlush(p.Tables, p.Cfg.Extra["bMinFlush"], p.Cfg.Extra["bMaxFlush"])
	optsA := func() *Cfg { c := p.Cfg; return &c }
	optsB := func() *Cfg {
		c := p.Cfg
		c.MaxMemoryRatio = float64(p.Cfg.Extra["bMemRatio"]) / 100
		if p.Cfg.Extra["bMemTiny"] > 0 {
			c.MaxMemoryRatio = 12000 / systemMemoryBytes()
			e.Count("probe.tiny-memory-cap")
		}
		return &c
	}
	a, err := e.OpenNode("A", filepath.Join(e.Root, "A"), dbOpts(optsA()), tablesA)
	if err != nil {
		return err
	}
	b, err := e.OpenNode("B", filepath.Join(e.Root, "B"), dbOpts(optsB()), tablesB)
	if err != nil {
		return err
	}
	compared := 0
	check := func(op *Op) error {
		e.Settle()
		flushed := map[string]*Node{"A": a, "B": b}[op.S]
		if flushed != nil {
			flushed.DB.FlushAll()
			e.Sleep(time.Millisecond)
			e.Count("op.flushcheck")
		}
		for _, sql := range op.Strs {
			// plan all three at the same simulated instant: windows and period
			// buckets are anchored at the clock value seen at planning time
			pa, pb := a.Prepare(sql, true), b.Prepare(sql, true)
			var pd *Prepared
			if flushed != nil {
				pd = flushed.Prepare(sql, false)
			}
			qa := pa.Run(QOpts{})
			qb := pb.Run(QOpts{})
			if qa.Panicked || qb.Panicked {
				// a panicking query is C09/C16's subject; whether it panics can
				// depend on the order in which the sort happens to compare rows
				e.Count("q.panic")
				continue
			}
			e.Logf("check %q A=%d B=%d", sql, len(qa.Rows), len(qb.Rows))
			if ok, diff := sameRows(qa, qb); !ok && shiftBelowResolution(p.Tables, sql, diff) {
				if e.Known("C03-shift-below-resolution-after-sorted-flush") {
					continue
				}
				return &Violation{"shift-below-resolution", fmt.Sprintf("same points, different flush schedules: %q differs between A and B in a SHIFT field whose offset is smaller than the table's resolution: %s", sql, diff)}
			}
			if ok, diff := sameRows(qa, qb); !ok {
				return &Violation{"twin-mismatch", fmt.Sprintf("same points, different flush schedules: %q differs between A and B: %s", sql, diff)}
			}
			if qa.Err == nil && len(qa.Rows) > 0 {
				compared++
			}
			if flushed != nil {
				qd := pd.Run(QOpts{})
				qm := qa
				if flushed == b {
					qm = qb
				}
				if ok, diff := sameRows(qm, qd); !ok {
					return &Violation{"disk-differs-after-flush", fmt.Sprintf("immediately after a completed flush of %s, disk-only %q differs from memstore-inclusive: %s", flushed.Name, sql, diff)}
				}
			}
		}
		for _, n := range []*Node{a, b} {
			for i := range p.Tables {
				file, fc, mem := n.DB.SimStorageShape(p.Tables[i].Name)
				e.Count(fmt.Sprintf("shape.%s.file=%v.mem=%v.fc10=%v", n.Name, file != "", mem > 0, fc >= 10))
				if fc >= 10 {
					e.Count("probe.tenth-flush")
				}
			}
		}
		return nil
	}
	for i := range p.Ops {
		op := &p.Ops[i]
		stepDt(e, op)
		switch op.K {
		case "ins":
			if err := a.Insert(op.P); err != nil {
				return err
			}
			if err := b.Insert(op.P); err != nil {
				return err
			}
			e.Count("op.ins")
		case "flushA":
			a.DB.FlushAll()
			e.Count("op.flush")
		case "flushB":
			b.DB.FlushAll()
			e.Count("op.flush")
		case "flushRetry":
			n := map[string]*Node{"A": a, "B": b}[op.S]
			e.Settle()
			flushWithTransientReadError(e, n)
		case "adv":
			e.Count("op.adv")
		case "restartA":
			if a, err = e.RestartClean(a, dbOpts(optsA()), tablesA); err != nil {
				return err
			}
		case "restartB":
			if b, err = e.RestartClean(b, dbOpts(optsB()), tablesB); err != nil {
				return err
			}
		case "mempressB":
			e.SetMemory(b, 1<<62)
			e.Sleep(2100 * time.Millisecond) // trackMemStats samples every 2 s
			e.Count("fault.mempressure")
			b.pendingMemOK = int(op.N)
		case "check":
			if err := check(op); err != nil {
				return err
			}
		}
		if op.K == "ins" && b.pendingMemOK > 0 {
			b.pendingMemOK--
			if b.pendingMemOK == 0 {
				e.Settle()
				e.SetMemory(b, 0)
				e.Sleep(2100 * time.Millisecond)
			}
		}
		e.Sleep(0)
	}
	if compared > 0 {
		e.Count("nontrivial")
	}
	a.Close()
	b.Close()
	return nil
}

// systemMemoryBytes reads MemTotal (zenodb turns MaxMemoryRatio into bytes by
// multiplying with the machine's RAM).
func systemMemoryBytes() float64 {
	b, err := os.ReadFile("/proc/meminfo")
	if err == nil {
		for _, l := range strings.Split(string(b), "\n") {
			if strings.HasPrefix(l, "MemTotal:") {
				var kb float64
				fmt.Sscanf(strings.TrimSpace(strings.TrimPrefix(l, "MemTotal:")), "%f", &kb)
				if kb > 0 {
					return kb * 1024
				}
			}
		}
	}
	return 16 << 30
}

// shiftBelowResolution: the query reads a table that has a field defined as
// SHIFT(.., d) with 0 < |d| < the table's resolution, and the query names that
// field or selects everything (the finding shows as a differing value, or as
// a row that exists on one side only).
func shiftBelowResolution(tables []TableDef, sql, diff string) bool {
	for ti := range tables {
		t := &tables[ti]
		if !strings.Contains(sql, " "+t.Name) {
			continue
		}
		for fi := range t.Fields {
			f := &t.Fields[fi]
			if f.E.Kind != "raw" || !strings.HasPrefix(f.E.Raw, "SHIFT(") {
				continue
			}
			k := strings.LastIndex(f.E.Raw, "'-")
			if k < 0 {
				continue
			}
			d, err := time.ParseDuration(strings.TrimSuffix(f.E.Raw[k+2:], "')"))
			if err != nil || d <= 0 || int64(d) >= t.ResNanos {
				continue
			}
			if strings.Contains(sql, f.Name) || strings.Contains(sql, "*") {
				return true
			}
		}
	}
	return false
}

// flushWithTransientReadError forces a flush of the node's tables during
// which the first attempt finds every current filestore file cut in half (a
// short read); the file is whole again for the retry.
// cutInsideRow moves a cut position of a filestore's uncompressed content so
// that it lies strictly inside a row (a file that ends exactly between two rows
// is a well-formed shorter file, not a read error). Layout: uint32 header
// length, header, then rows that start with their own uint64 length.
func cutInsideRow(all []byte, want int) int {
	if len(all) < 4 {
		return want
	}
	pos := 4 + int(binary.BigEndian.Uint32(all))
	for pos+8 <= len(all) {
		l := int(binary.BigEndian.Uint64(all[pos:]))
		if l < 8 || pos+l > len(all) {
			break
		}
		if want <= pos+l {
			// the row [pos, pos+l) holds (or ends at) the wanted position
			if want <= pos || want >= pos+l {
				return pos + l/2
			}
			return want
		}
		pos += l
	}
	return want
}

func flushWithTransientReadError(e *Env, n *Node) {
	saved := map[string][]byte{}
	attempts := map[string]int{}
	e.mu.Lock()
	e.OnPoint = func(nn *Node, site, tbl string) {
		if nn != n || site != "flush.begin" {
			return
		}
		attempts[tbl]++
		file, _, _ := n.DB.SimStorageShape(tbl)
		switch attempts[tbl] {
		case 1:
			if b, err := os.ReadFile(file); err == nil && len(b) > 64 {
				// the file's content ends after two thirds of its (uncompressed)
				// bytes: the rows before that point are read and merged, then
				// the read fails
				if all, rerr := io.ReadAll(snappy.NewReader(bytes.NewReader(b))); rerr == nil && len(all) > 96 {
					var buf bytes.Buffer
					w := snappy.NewBufferedWriter(&buf)
					w.Write(all[:cutInsideRow(all, len(all)*2/3)])
					w.Close()
					saved[tbl] = b
					os.WriteFile(file, buf.Bytes(), 0644)
					e.Count("fault.flush.short-read")
				}
			}
		case 2:
			// (real attempts are some time apart; zenodb derives the identity
			// of a file scan from the wall clock, which stands still inside the
			// bubble unless somebody sleeps)
			time.Sleep(time.Microsecond)
			if b, ok := saved[tbl]; ok {
				os.WriteFile(file, b, 0644)
				delete(saved, tbl)
				e.Count("probe.flush-retried")
			}
		}
	}
	e.mu.Unlock()
	n.DB.FlushAll()
	e.mu.Lock()
	e.OnPoint = nil
	e.mu.Unlock()
	// (a table that did not retry - nothing to flush - gets its file back)
	for tbl, b := range saved {
		if file, _, _ := n.DB.SimStorageShape(tbl); file != "" {
			os.WriteFile(file, b, 0644)
		}
	}
	e.Sleep(time.Millisecond)
}
