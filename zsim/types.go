package zsim

import (
	"fmt"
	"math"
	"sort"
	"strconv"
	"strings"
	"time"
)

// BaseNanos is the instant at which every synctest bubble starts
// (2000-01-01T00:00:00Z). All plan timestamps are offsets from it.
const BaseNanos int64 = 946684800000000000

// Val is a typed scalar (dimension or value). K is one of
// 'i' int, 'f' float64, 's' string, 'b' bool, 'n' nil.
type Val struct {
	K string  `json:"k"`
	I int64   `json:"i,omitempty"`
	F float64 `json:"f,omitempty"`
	S string  `json:"s,omitempty"`
	B bool    `json:"b,omitempty"`
}

func IntV(i int64) Val     { return Val{K: "i", I: i} }
func FloatV(f float64) Val { return Val{K: "f", F: f} }
func StrV(s string) Val    { return Val{K: "s", S: s} }
func BoolV(b bool) Val     { return Val{K: "b", B: b} }
func NilV() Val            { return Val{K: "n"} }

// Go converts to the Go value handed to zenodb.
func (v Val) Go() interface{} {
	switch v.K {
	case "i":
		return int(v.I)
	case "f":
		return v.F
	case "s":
		return v.S
	case "b":
		return v.B
	}
	return nil
}

// Canon is the canonical typed text of a value.
func (v Val) Canon() string {
	switch v.K {
	case "i":
		return "i:" + strconv.FormatInt(v.I, 10)
	case "f":
		return "f:" + strconv.FormatFloat(v.F, 'g', -1, 64)
	case "s":
		return "s:" + v.S
	case "b":
		return "b:" + strconv.FormatBool(v.B)
	}
	return "n:"
}

// Num returns the numeric value as zenodb's insert path understands it
// (float64 and int only).
func (v Val) Num() (float64, bool) {
	switch v.K {
	case "i":
		return float64(v.I), true
	case "f":
		return v.F, true
	}
	return 0, false
}

// SQL renders the value as a SQL literal.
func (v Val) SQL() string {
	switch v.K {
	case "i":
		return strconv.FormatInt(v.I, 10)
	case "f":
		s := strconv.FormatFloat(v.F, 'f', -1, 64)
		if !strings.Contains(s, ".") {
			s += ".0"
		}
		return s
	case "s":
		return "'" + strings.ReplaceAll(v.S, "'", "") + "'"
	case "b":
		if v.B {
			return "TRUE"
		}
		return "FALSE"
	}
	return "NULL"
}

// ValFromGo converts a value read back from zenodb (bytemap) to a Val.
func ValFromGo(x interface{}) Val {
	switch t := x.(type) {
	case nil:
		return NilV()
	case int:
		return IntV(int64(t))
	case int64:
		return IntV(t)
	case float64:
		return FloatV(t)
	case string:
		return StrV(t)
	case bool:
		return BoolV(t)
	}
	return StrV(fmt.Sprintf("?%T:%v", x, x))
}

// KV is a named value.
type KV struct {
	N string `json:"n"`
	V Val    `json:"v"`
}

// CanonKey renders sorted name=value pairs.
func CanonKey(kvs []KV) string {
	c := append([]KV(nil), kvs...)
	sort.Slice(c, func(i, j int) bool { return c[i].N < c[j].N })
	parts := make([]string, 0, len(c))
	for _, kv := range c {
		parts = append(parts, kv.N+"="+kv.V.Canon())
	}
	return strings.Join(parts, "|")
}

func kvMap(kvs []KV) map[string]interface{} {
	m := make(map[string]interface{}, len(kvs))
	for _, kv := range kvs {
		m[kv.N] = kv.V.Go()
	}
	return m
}

func kvGet(kvs []KV, name string) (Val, bool) {
	for _, kv := range kvs {
		if kv.N == name {
			return kv.V, true
		}
	}
	return Val{}, false
}

// Point is one insert. TS is an offset in nanoseconds from BaseNanos.
type Point struct {
	Stream string `json:"stream"`
	TS     int64  `json:"ts"`
	Dims   []KV   `json:"dims"`
	Vals   []KV   `json:"vals"`
	ID     int    `json:"id"`
}

func (p *Point) Time() time.Time { return time.Unix(0, BaseNanos+p.TS) }

// ---------------------------------------------------------------------------
// Schema AST (the simulator's own; rendered to SQL for zenodb, evaluated
// directly by the reference model).

// Pred is a predicate over dimensions.
type Pred struct {
	Kind string `json:"kind"` // cmp, and, or, not, in, isnull, notnull, like
	Dim  string `json:"dim,omitempty"`
	Op   string `json:"op,omitempty"` // = <> < > <= >=
	V    *Val   `json:"v,omitempty"`
	Vs   []Val  `json:"vs,omitempty"`
	L    *Pred  `json:"l,omitempty"`
	R    *Pred  `json:"r,omitempty"`
}

func (p *Pred) SQL() string {
	switch p.Kind {
	case "cmp":
		return fmt.Sprintf("%s %s %s", p.Dim, p.Op, p.V.SQL())
	case "like":
		return fmt.Sprintf("%s LIKE %s", p.Dim, p.V.SQL())
	case "and":
		return fmt.Sprintf("(%s AND %s)", p.L.SQL(), p.R.SQL())
	case "or":
		return fmt.Sprintf("(%s OR %s)", p.L.SQL(), p.R.SQL())
	case "not":
		return fmt.Sprintf("NOT (%s)", p.L.SQL())
	case "in":
		parts := make([]string, len(p.Vs))
		for i, v := range p.Vs {
			parts[i] = v.SQL()
		}
		return fmt.Sprintf("%s IN (%s)", p.Dim, strings.Join(parts, ", "))
	case "isnull":
		return fmt.Sprintf("%s IS NULL", p.Dim)
	case "notnull":
		return fmt.Sprintf("%s IS NOT NULL", p.Dim)
	}
	panic("bad pred kind " + p.Kind)
}

// FieldExpr is an aggregate expression.
type FieldExpr struct {
	Kind string     `json:"kind"` // agg, if, bin, const, ref
	Fn   string     `json:"fn,omitempty"`
	X    string     `json:"x,omitempty"`
	W    string     `json:"w,omitempty"`
	Bnd  bool       `json:"bnd,omitempty"`
	Lo   float64    `json:"lo,omitempty"`
	Hi   float64    `json:"hi,omitempty"`
	Cond *Pred      `json:"cond,omitempty"`
	Sub  *FieldExpr `json:"sub,omitempty"`
	Op   string     `json:"op,omitempty"`
	L    *FieldExpr `json:"l,omitempty"`
	R    *FieldExpr `json:"r,omitempty"`
	C    float64    `json:"c,omitempty"`
	Ref  string     `json:"ref,omitempty"`
	// Raw is verbatim SQL for expressions the model does not evaluate
	// (PERCENTILE, SHIFT ...). Kind == "raw".
	Raw string `json:"raw,omitempty"`
}

func fnum(f float64) string {
	if f == math.Trunc(f) && math.Abs(f) < 1e15 {
		return strconv.FormatInt(int64(f), 10)
	}
	return strconv.FormatFloat(f, 'f', -1, 64)
}

func (e *FieldExpr) SQL() string {
	switch e.Kind {
	case "agg":
		x := e.X
		if e.Bnd {
			x = fmt.Sprintf("BOUNDED(%s, %s, %s)", e.X, fnum(e.Lo), fnum(e.Hi))
		}
		if e.Fn == "WAVG" {
			return fmt.Sprintf("WAVG(%s, %s)", x, e.W)
		}
		return fmt.Sprintf("%s(%s)", e.Fn, x)
	case "if":
		return fmt.Sprintf("IF(%s, %s)", e.Cond.SQL(), e.Sub.SQL())
	case "bin":
		return fmt.Sprintf("(%s %s %s)", e.L.SQL(), e.Op, e.R.SQL())
	case "const":
		return fnum(e.C)
	case "ref":
		return e.Ref
	case "raw":
		return e.Raw
	}
	panic("bad field expr kind " + e.Kind)
}

// Modelled reports whether the reference model can evaluate e.
func (e *FieldExpr) Modelled() bool {
	switch e.Kind {
	case "raw":
		return false
	case "if":
		return e.Sub.Modelled()
	case "bin":
		return e.L.Modelled() && e.R.Modelled()
	}
	return true
}

type FieldDef struct {
	Name string     `json:"name"`
	E    *FieldExpr `json:"e"`
	// Since: the field reflects only points whose acceptance sequence number
	// (per table) is >= Since (fields added by an alteration).
	Since int `json:"since,omitempty"`
}

// TableDef describes a table or view.
type TableDef struct {
	Name        string     `json:"name"`
	Stream      string     `json:"stream"`
	View        bool       `json:"view,omitempty"`
	ViewOf      string     `json:"viewOf,omitempty"`
	Fields      []FieldDef `json:"fields"`
	Where       *Pred      `json:"where,omitempty"`
	GroupBy     []string   `json:"groupBy"` // nil/empty = all dims
	ResNanos    int64      `json:"res"`
	RetNanos    int64      `json:"ret"`
	MinFlush    int64      `json:"minFlush"`
	MaxFlush    int64      `json:"maxFlush"`
	PartitionBy []string   `json:"partitionBy,omitempty"`
	Backfill    int64      `json:"backfill,omitempty"`
	// SQLOverride, when set, is the verbatim table SQL (views, altered tables).
	SQLOverride string `json:"sql,omitempty"`
	// MWhere, when set, is the predicate the model applies (views: own AND base).
	MWhere *Pred `json:"mwhere,omitempty"`
}

func (t *TableDef) Res() time.Duration { return time.Duration(t.ResNanos) }
func (t *TableDef) Ret() time.Duration { return time.Duration(t.RetNanos) }

func durSQL(d time.Duration) string {
	if d%time.Second == 0 {
		return fmt.Sprintf("%ds", int64(d/time.Second))
	}
	return fmt.Sprintf("%dms", int64(d/time.Millisecond))
}

// SQL renders the CREATE-table select.
func (t *TableDef) SQL() string {
	if t.SQLOverride != "" {
		return t.SQLOverride
	}
	var sb strings.Builder
	sb.WriteString("SELECT ")
	for i, f := range t.Fields {
		if i > 0 {
			sb.WriteString(", ")
		}
		if f.E.Kind == "ref" && f.E.Ref == f.Name {
			sb.WriteString(f.Name)
		} else {
			sb.WriteString(f.E.SQL() + " AS " + f.Name)
		}
	}
	from := t.Stream
	if t.View {
		from = t.ViewOf
	}
	sb.WriteString(" FROM " + from)
	if t.Where != nil {
		sb.WriteString(" WHERE " + t.Where.SQL())
	}
	sb.WriteString(" GROUP BY ")
	if len(t.GroupBy) == 0 {
		sb.WriteString("*")
	} else {
		sb.WriteString(strings.Join(t.GroupBy, ", "))
	}
	sb.WriteString(", period(" + durSQL(t.Res()) + ")")
	return sb.String()
}

func (t *TableDef) field(name string) *FieldDef {
	for i := range t.Fields {
		if t.Fields[i].Name == name {
			return &t.Fields[i]
		}
	}
	return nil
}

// ---------------------------------------------------------------------------
// Plans, ops, results.

// Cfg holds the per-run knobs.
type Cfg struct {
	VirtualTime      bool             `json:"virtualTime,omitempty"`
	CoalesceNanos    int64            `json:"coalesce,omitempty"`
	IterConcurrency  int              `json:"iterConc,omitempty"`
	MaxMemoryRatio   float64          `json:"maxMemRatio,omitempty"`
	WALSyncNanos     int64            `json:"walSync,omitempty"`
	Partitions       int              `json:"partitions,omitempty"`
	Leaders          int              `json:"leaders,omitempty"`
	FollowersPerPart int              `json:"followersPerPart,omitempty"`
	Codec            bool             `json:"codec,omitempty"`
	Faults           bool             `json:"faults,omitempty"`
	Extra            map[string]int64 `json:"extra,omitempty"`
}

// Op is one step of the explicit script.
type Op struct {
	K  string `json:"k"`
	Dt int64  `json:"dt,omitempty"` // simulated nanoseconds slept before the op
	P  *Point `json:"p,omitempty"`
	// generic arguments
	S    string    `json:"s,omitempty"`
	S2   string    `json:"s2,omitempty"`
	N    int64     `json:"n,omitempty"`
	N2   int64     `json:"n2,omitempty"`
	B    bool      `json:"b,omitempty"`
	Strs []string  `json:"strs,omitempty"`
	T    *TableDef `json:"t,omitempty"`
	Sub  []Op      `json:"sub,omitempty"`
}

// Plan is a complete, explicit description of one run.
type Plan struct {
	Prop   string     `json:"property"`
	Seed   uint64     `json:"seed"`
	World  string     `json:"world"`
	Cfg    Cfg        `json:"config"`
	Tables []TableDef `json:"tables"`
	Ops    []Op       `json:"ops"`
	Tape   []uint16   `json:"tape,omitempty"`
	// filled in for replay files
	Signature   string `json:"signature,omitempty"`
	Detail      string `json:"detail,omitempty"`
	EventLogSHA string `json:"eventlog_sha256,omitempty"`
	MinFrom     int    `json:"minimised_from_ops,omitempty"`
	Explanation string `json:"explanation,omitempty"`
}

func (p *Plan) table(name string) *TableDef {
	for i := range p.Tables {
		if p.Tables[i].Name == name {
			return &p.Tables[i]
		}
	}
	return nil
}

// Result is what one run reports.
type Result struct {
	Prop     string         `json:"property"`
	Seed     uint64         `json:"seed"`
	Status   string         `json:"status"` // ok, violation, harness_error
	Sig      string         `json:"sig,omitempty"`
	Detail   string         `json:"detail,omitempty"`
	Nontriv  bool           `json:"nontrivial"`
	Shape    string         `json:"shape,omitempty"`
	LogSHA   string         `json:"logsha,omitempty"`
	SimNanos int64          `json:"simNanos"`
	WallNs   int64          `json:"wallNs"`
	Counts   map[string]int `json:"counts,omitempty"`
	NOps     int            `json:"nops"`
	Sample   interface{}    `json:"sample,omitempty"`
	PlanFile string         `json:"planFile,omitempty"`
}
