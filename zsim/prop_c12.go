package zsim

import (
	"fmt"
	"os"
	"path/filepath"
	"time"
)

func init() {
	register(&PropDef{ID: "C12", Gen: genC12, Exec: execC12, DeadlockIsViolation: true})
}

func genC12(seed uint64, tier string) *Plan {
	r := NewRng(seed, 12)
	u := genUniverse(r)
	u.NoConst = true
	p := &Plan{Prop: "C12", Seed: seed, World: "CL"}
	p.Cfg.Partitions = PickOne(r, []int{2, 2, 3})
	p.Cfg.Leaders = PickOne(r, []int{1, 1, 2})
	p.Cfg.FollowersPerPart = PickOne(r, []int{1, 2, 2})
	p.Cfg.CoalesceNanos = int64(time.Millisecond)
	p.Cfg.Codec = r.Bool(0.5)
	p.Tables = genSchema(r, u, SchemaOpts{MaxTables: 2, RetMin: 2 * time.Hour, RetMax: 4 * time.Hour, Partition: true})
	if len(p.Tables) == 2 && r.Bool(0.5) {
		// two tables that the leader groups together when a follower joins
		p.Tables[1].PartitionBy = append([]string(nil), p.Tables[0].PartitionBy...)
	}
	for i := range p.Tables {
		p.Tables[i].MinFlush = int64(PickOne(r, []time.Duration{50 * time.Millisecond, time.Second, 20 * time.Second}))
		p.Tables[i].MaxFlush = p.Tables[i].MinFlush * int64(PickOne(r, []int{1, 5}))
	}
	span := int64(PickOne(r, []time.Duration{10 * time.Second, time.Minute, 4 * time.Minute}))
	streams := streamsOf(p.Tables)
	n := r.Range(5, 60)
	nFaults := r.Range(1, 8)
	faultAt := map[int]bool{}
	for k := 0; k < nFaults; k++ {
		faultAt[r.Intn(n)] = true
	}
	follower := func() string {
		return fmt.Sprintf("F%d.%d", r.Intn(p.Cfg.Partitions), r.Intn(p.Cfg.FollowersPerPart))
	}
	leader := func() string { return fmt.Sprintf("L%d", r.Intn(p.Cfg.Leaders)) }
	p.Ops = append(p.Ops, Op{K: "adv", Dt: PickOne(r, []int64{int64(10 * time.Second), int64(37 * time.Second), int64(45 * time.Second)})})
	var pts []*Point
	for i := 0; i < n; i++ {
		pt := genPoint(r, u, p.Tables, PointOpts{SpanNanos: span, Streams: streams, NoOdd: true}, pts, i)
		pts = append(pts, pt)
		p.Ops = append(p.Ops, Op{K: "ins", Dt: PickOne(r, insDts), P: pt, N: int64(r.Intn(p.Cfg.Leaders))})
		if r.Bool(0.08) {
			p.Ops = append(p.Ops, Op{K: "flushF", Dt: PickOne(r, insDts)})
		}
		if r.Bool(0.12) {
			p.Ops = append(p.Ops, Op{K: "adv", Dt: PickOne(r, []int64{int64(100 * time.Millisecond), int64(2 * time.Second), int64(15 * time.Second), int64(70 * time.Second)})})
		}
		if faultAt[i] {
			var f Op
			switch r.Intn(10) {
			case 0:
				f = Op{K: "stop", S: follower()}
			case 1:
				f = Op{K: "kill", S: follower()}
			case 2:
				f = Op{K: "arm_crash", S: follower(), S2: PickOne(r, crashSites[:14]), N: int64(r.Range(1, 6))}
			case 3:
				f = Op{K: "stop", S: leader()}
			case 4:
				f = Op{K: "kill", S: leader()}
			case 5, 6:
				f = Op{K: "cut", S: leader(), S2: follower()}
			case 7:
				f = Op{K: "stall", S: leader(), S2: follower(), N: PickOne(r, []int64{int64(500 * time.Millisecond), int64(5 * time.Second), int64(40 * time.Second)})}
			case 8:
				f = Op{K: "replace", S: follower()}
			default:
				f = Op{K: "delay", S: leader(), S2: follower(), N: PickOne(r, []int64{int64(5 * time.Millisecond), int64(300 * time.Millisecond)})}
			}
			f.Dt = PickOne(r, insDts)
			p.Ops = append(p.Ops, f)
			// the matching repair comes some ops later
			switch f.K {
			case "stop", "kill":
				if f.S[0] == 'F' && r.Bool(0.35) {
					// the node comes back while its link to a leader is down: it
					// catches up only after a reconnect
					l := leader()
					p.Ops = append(p.Ops, Op{K: "cut", S: l, S2: f.S, Dt: 1000}, Op{K: "adv", Dt: int64(time.Second)}, Op{K: "start", S: f.S},
						Op{K: "adv", Dt: PickOne(r, []int64{int64(3 * time.Second), int64(40 * time.Second)})}, Op{K: "heal", S: l, S2: f.S})
					break
				}
				p.Ops = append(p.Ops, Op{K: "adv", Dt: PickOne(r, []int64{int64(time.Second), int64(8 * time.Second)})}, Op{K: "start", S: f.S})
			case "replace":
				p.Ops = append(p.Ops, Op{K: "adv", Dt: int64(time.Second)})
			case "cut":
				if r.Bool(0.7) {
					p.Ops = append(p.Ops, Op{K: "adv", Dt: PickOne(r, []int64{int64(time.Second), int64(20 * time.Second)})}, Op{K: "heal", S: f.S, S2: f.S2})
				}
			}
		}
	}
	o := AllQ
	o.Limit = false
	o.Shift = false
	o.NoConst = true
	o.Crosstab = false // (two recorded C10 findings)
	o.DataSpan = span
	p.Ops = append(p.Ops, Op{K: "check", Strs: genBattery(r, p, u, o, r.Range(2, 5))})
	if r.Bool(0.45) || os.Getenv("ZSIM_FORCE_REAL") != "" {
		// world CR: whole servers over the simulated connection network
		p.Cfg.Extra = map[string]int64{"real": 1}
		p.World = "CR"
	}
	return p
}

func execC12(e *Env, p *Plan) error {
	c, err := NewCluster(e, p)
	if err != nil {
		return err
	}
	dcfg := p.Cfg
	d, err := e.OpenNode("D", filepath.Join(e.Root, "D"), dbOpts(&dcfg), p.Tables)
	if err != nil {
		return err
	}
	restartDue := map[string]bool{}
	reap := func() {
		for _, cn := range c.ReapCrashed() {
			restartDue[cn.Name] = true
		}
	}
	for i := range p.Ops {
		op := &p.Ops[i]
		stepDt(e, op)
		reap()
		// nodes whose crash point fired come back on their image
		for name := range restartDue {
			if cn := c.followerByName(name); cn != nil && !cn.Up {
				if err := c.StartNode(cn, false); err != nil {
					return &Violation{"restart-failed", fmt.Sprintf("%s could not restart on its crash image: %v", name, err)}
				}
			}
			delete(restartDue, name)
		}
		switch op.K {
		case "ins":
			l := c.Leaders[int(op.N)%len(c.Leaders)]
			if !l.Up {
				// try the other leader
				for _, o := range c.Leaders {
					if o.Up {
						l = o
					}
				}
			}
			if !l.Up {
				e.Count("op.ins-skipped-no-leader")
				break
			}
			if err := l.N.Insert(op.P); err != nil {
				return fmt.Errorf("insert through %s: %v", l.Name, err)
			}
			if err := d.Insert(op.P); err != nil {
				return err
			}
			e.Count("op.ins")
		case "flushF":
			for _, f := range c.Followers {
				if f.Up {
					f.N.DB.FlushAll()
				}
			}
		case "stop":
			if cn := c.followerByName(op.S); cn != nil {
				c.StopNode(cn)
			}
		case "kill":
			if cn := c.followerByName(op.S); cn != nil {
				c.KillNode(cn)
			}
		case "replace":
			if cn := c.followerByName(op.S); cn != nil && !cn.Leader {
				c.StopNode(cn)
				if err := c.StartNode(cn, true); err != nil {
					return err
				}
			}
		case "start":
			if cn := c.followerByName(op.S); cn != nil {
				if err := c.StartNode(cn, false); err != nil {
					return &Violation{"restart-failed", fmt.Sprintf("%s: %v", op.S, err)}
				}
			}
		case "arm_crash":
			e.mu.Lock()
			e.crash = &CrashArm{Node: op.S, Site: op.S2, Nth: int(op.N)}
			e.mu.Unlock()
		case "cut":
			c.Cut(op.S, op.S2)
		case "heal":
			c.Heal(op.S, op.S2)
		case "stall":
			c.Stall(op.S, op.S2, time.Duration(op.N))
		case "delay":
			c.SetDelay(op.S, op.S2, time.Duration(op.N))
			e.Count("fault.link.delay")
		case "check":
			// faults stop: heal every link, start every node
			e.mu.Lock()
			e.crash = nil
			e.mu.Unlock()
			reap()
			for _, cn := range append(append([]*CNode(nil), c.Leaders...), c.Followers...) {
				if !cn.Up {
					if err := c.StartNode(cn, false); err != nil {
						return &Violation{"restart-failed", fmt.Sprintf("%s: %v", cn.Name, err)}
					}
				}
			}
			for _, l := range c.Leaders {
				for _, f := range c.Followers {
					c.Heal(l.Name, f.Name)
					c.SetDelay(l.Name, f.Name, 0)
				}
			}
			// bounded liveness: within 5 simulated minutes after the last fault
			// every follower holds exactly its partition's points
			deadline := time.Now().Add(5 * time.Minute)
			clusterSettle(e, c)
			var v *Violation
			for {
				v = checkRouting(e, c, d, p)
				if v == nil || time.Now().After(deadline) {
					break
				}
				e.Sleep(5 * time.Second)
				e.Count("probe.waited-for-convergence")
			}
			if v != nil {
				v.Detail = fmt.Sprintf("5 simulated minutes after all faults stopped [%s]: %s", faultLog(e), v.Detail)
				return v
			}
			if c.Real {
				// the query feed of a follower uses a connection of its own, which
				// comes back on its own back-off schedule: the same bound applies
				if v := waitForQueryFeeds(e, c, p, deadline); v != nil {
					v.Detail = fmt.Sprintf("[%s] %s", faultLog(e), v.Detail)
					return v
				}
			}
			if v := compareClusterQueries(e, c, d, op.Strs, "cluster-differs-after-faults"); v != nil {
				v.Detail = fmt.Sprintf("[%s] %s", faultLog(e), v.Detail)
				return v
			}
		}
		e.Sleep(0)
		reap()
	}
	c.CloseAll()
	d.Abandon()
	return nil
}

func faultLog(e *Env) string {
	s := ""
	for k, v := range e.Counts {
		if len(k) > 6 && k[:6] == "fault." && v > 0 {
			s += fmt.Sprintf("%s=%d ", k[6:], v)
		}
	}
	return s
}

// waitForQueryFeeds polls every live leader with a cheap query until every
// partition answers, or the liveness bound passes.
func waitForQueryFeeds(e *Env, c *Cluster, p *Plan, deadline time.Time) *Violation {
	sql := "SELECT _points FROM " + p.Tables[0].Name + " GROUP BY _"
	for {
		var last string
		for _, l := range c.Leaders {
			if !l.Up {
				continue
			}
			q := l.N.Query(sql, QOpts{IncludeMem: true})
			if q.Err != nil {
				last = fmt.Sprintf("%s: %v", l.Name, q.Err)
			} else if q.Stats != nil && q.Stats.NumSuccessfulPartitions != q.Stats.NumPartitions {
				last = fmt.Sprintf("%s: %d of %d partitions answer (missing %v)", l.Name, q.Stats.NumSuccessfulPartitions, q.Stats.NumPartitions, q.Stats.MissingPartitions)
			}
		}
		if last == "" {
			return nil
		}
		if time.Now().After(deadline) {
			return &Violation{"query-feed-not-restored", fmt.Sprintf("5 simulated minutes after all faults stopped queries are still not answered by every partition: %s", last)}
		}
		e.Count("probe.waited-for-query-feed")
		e.Sleep(5 * time.Second)
	}
}
