package zsim

import (
	"context"
	"fmt"
	"path/filepath"
	"strings"
	"time"

	"github.com/getlantern/zenodb/common"
	"github.com/getlantern/zenodb/core"
	"github.com/getlantern/zenodb/planner"
)

func init() {
	register(&PropDef{ID: "C11", Gen: genC11, Exec: execC11})
}

var c11Literals = []string{
	"da <> 'group by x'", "da <> 'x having y'", "da <> 'order by z'", "da <> 'limit 5'", "da <> 'from t0'", "da <> 'crosstab(db)'", "da <> 'x crosstabt(dc) y'", "da LIKE '%group by %'",
	"da IN (SELECT da FROM t0 GROUP BY da)", "da IN (SELECT da FROM t0 GROUP BY da HAVING _points > 0)", "db IN (SELECT db FROM t0 GROUP BY db)",
}

func genC11(seed uint64, tier string) *Plan {
	r := NewRng(seed, 11)
	u := genUniverse(r)
	u.NoConst = true
	p := &Plan{Prop: "C11", Seed: seed, World: "PL"}
	p.Cfg.Partitions = r.Range(1, 6)
	p.Cfg.CoalesceNanos = int64(time.Millisecond)
	p.Tables = genSchema(r, u, SchemaOpts{MaxTables: 1, RetMin: time.Hour, RetMax: 4 * time.Hour, Partition: true})
	p.Tables[0].Name = "t0"
	span := int64(PickOne(r, []time.Duration{10 * time.Second, time.Minute, 4 * time.Minute}))
	n := r.Range(3, 50)
	var pts []*Point
	// adversarial but key-respecting placement: a seeded map from the values of
	// the table's partition keys to a partition
	placeSeed := r.Uint64()
	for i := 0; i < n; i++ {
		pt := genPoint(r, u, p.Tables, PointOpts{SpanNanos: span, NoOdd: true}, pts, i)
		pts = append(pts, pt)
		p.Ops = append(p.Ops, Op{K: "ins", Dt: PickOne(r, insDts[:3]), P: pt, N: int64(placeSeed >> 1)})
	}
	o := AllQ
	o.Limit = false
	o.LimitTotal = true
	o.InSubTables = p.Tables
	o.Shift = false
	o.NoConst = true
	o.DataSpan = span
	nq := r.Range(3, 9)
	for i := 0; i < nq; i++ {
		q := genQuery(r, &p.Tables[0], u, o)
		if r.Bool(0.3) && q.FromSub == nil {
			q.Where = nil
			q.WhereRaw = PickOne(r, c11Literals)
		}
		p.Ops = append(p.Ops, Op{K: "q", S: q.SQL()})
	}
	if t := &p.Tables[0]; len(t.PartitionBy) > 0 && r.Bool(0.5) {
		// directed at the pushdown decision: the inner level groups by every
		// partition key, the outer level by functions of them that are or are
		// not one-to-one, next to the remaining keys
		pk := PickOne(r, t.PartitionBy)
		fn := map[string][]string{"da": {"SUBSTR(da, 0, 1) AS k0", "CONCAT('_', da) AS k0", "LEN(da) AS k0"}, "db": {"CONCAT('v', db) AS k0", "ANY(db, db) AS k0"}, "dc": {"CONCAT('v', dc) AS k0", "ANY(dc, dc) AS k0"}}[pk]
		outer := []string{PickOne(r, fn)}
		for _, k := range t.PartitionBy {
			if k != pk {
				outer = append(outer, k)
			}
		}
		inner := PickOne(r, []string{"*", strings.Join(t.PartitionBy, ", ")})
		p.Ops = append(p.Ops, Op{K: "q", S: fmt.Sprintf("SELECT _points FROM (SELECT * FROM t0 GROUP BY %s) GROUP BY %s", inner, strings.Join(outer, ", "))})
	}
	return p
}

// placeOf maps a point to a partition: points that agree on the table's
// partition keys (all dims if it has none) are co-located.
func placeOf(t *TableDef, pt *Point, seed int64, n int) int {
	var kvs []KV
	if len(t.PartitionBy) == 0 {
		kvs = pt.Dims
	} else {
		for _, k := range t.PartitionBy {
			if v, ok := kvGet(pt.Dims, k); ok {
				kvs = append(kvs, KV{k, v})
			}
		}
	}
	h := uint64(seed) ^ 0xcbf29ce484222325
	for _, b := range []byte(CanonKey(kvs)) {
		h ^= uint64(b)
		h *= 0x100000001b3
	}
	h ^= h >> 29
	return int(h % uint64(n))
}

func execC11(e *Env, p *Plan) error {
	n := p.Cfg.Partitions
	cfg := p.Cfg
	// the leader: a real passthrough node whose per-partition query handlers
	// are harness functions in front of N real standalone databases
	leader, err := e.OpenNode("L", filepath.Join(e.Root, "L"), leaderOpts(&cfg, 0), p.Tables)
	if err != nil {
		return err
	}
	scfg := p.Cfg
	scfg.Partitions = 0
	parts := make([]*Node, n)
	for i := 0; i < n; i++ {
		parts[i], err = e.OpenNode(fmt.Sprintf("P%d", i), filepath.Join(e.Root, fmt.Sprintf("P%d", i)), dbOpts(&scfg), p.Tables)
		if err != nil {
			return err
		}
	}
	union, err := e.OpenNode("U", filepath.Join(e.Root, "U"), dbOpts(&scfg), p.Tables)
	if err != nil {
		return err
	}
	var register func(i int)
	register = func(i int) {
		leader.DB.RegisterQueryHandler(i, func(ctx context.Context, sqlString string, isSubQuery bool, subQueryResults [][]interface{}, unflat bool, onFields core.OnFields, onRow core.OnRow, onFlatRow core.OnFlatRow) (interface{}, error) {
			defer func() { go register(i) }()
			src, err := parts[i].DB.Query(sqlString, isSubQuery, subQueryResults, common.ShouldIncludeMemStore(ctx))
			if err != nil {
				return nil, err
			}
			if unflat {
				return core.UnflattenOptimized(src).Iterate(ctx, onFields, onRow)
			}
			return src.Iterate(ctx, onFields, onFlatRow)
		})
	}
	for i := 0; i < n; i++ {
		for k := 0; k < 3; k++ {
			go register(i)
		}
	}
	t := &p.Tables[0]
	settled := false
	for i := range p.Ops {
		op := &p.Ops[i]
		stepDt(e, op)
		switch op.K {
		case "ins":
			settled = false
			pi := placeOf(t, op.P, op.N, n)
			if err := parts[pi].Insert(op.P); err != nil {
				return err
			}
			if err := union.Insert(op.P); err != nil {
				return err
			}
			e.Count(fmt.Sprintf("shape.placed.%d", pi))
		case "q":
			if !settled {
				e.Settle()
				settled = true
			}
			pl, pu := leader.Prepare(op.S, true), union.Prepare(op.S, true)
			planText := ""
			if pl.src != nil {
				planText = core.FormatSource(pl.src)
			}
			ql, qu := pl.Run(QOpts{}), pu.Run(QOpts{})
			e.Count("tv.programs")
			if ql.Panicked && !qu.Panicked && strings.Contains(op.S, "CROSSTAB") && strings.Contains(op.S, "GROUP BY *") {
				e.Count("tolerated.C10-crosstab-with-wildcard-panics-leader")
				continue
			}
			if ql.Panicked || qu.Panicked {
				if ql.Panicked != qu.Panicked {
					return &Violation{"plan-panic", fmt.Sprintf("%q: cluster plan panicked=%v local plan panicked=%v: %v %v", op.S, ql.Panicked, qu.Panicked, firstLineOf(ql.Err), firstLineOf(qu.Err))}
				}
				e.Count("q.panic")
				continue
			}
			// whole-query pushdown: the cluster source is the top of the plan
			// (below at most order by / offset / limit)
			pushdown := false
			for _, line := range strings.Split(planText, "\n") {
				l := strings.TrimSpace(line)
				if strings.HasPrefix(l, "<- order by") || strings.HasPrefix(l, "<- limit") || strings.HasPrefix(l, "<- offset") || l == "" {
					continue
				}
				pushdown = strings.HasPrefix(l, "<- cluster flat")
				break
			}
			if pushdown {
				e.Count("probe.plan-pushdown")
			} else if planText != "" {
				e.Count("probe.plan-nonpushdown")
			}
			e.Logf("q %q pushdown=%v cluster=%d local=%d err=%v/%v", op.S, pushdown, len(ql.Rows), len(qu.Rows), ql.Err != nil, qu.Err != nil)
			if (ql.Err != nil) != (qu.Err != nil) {
				if ql.Err != nil && textualRewriteSuspect(op.S) {
					if e.Known("C11-textual-group-by-rewrite") {
						continue
					}
					return &Violation{"textual-rewrite", fmt.Sprintf("%q is answered by the local plan but the cluster plan fails: %v (the non-pushdown rewrite cuts the SQL text at the first 'group by ', which here lies inside a subquery or a string literal)", op.S, ql.Err)}
				}
				return &Violation{"plan-error-mismatch", fmt.Sprintf("%q: cluster plan: %v; local plan over the union: %v", op.S, ql.Err, qu.Err)}
			}
			if ql.Err != nil {
				e.Count("q.error")
				continue
			}
			e.Count("tv.compared")
			if ok, diff := sameRows(qu, ql); !ok {
				if strings.Contains(op.S, "CROSSTAB") && (strings.Contains(op.S, "GROUP BY _,") || strings.Contains(op.S, ", _,") || strings.HasSuffix(op.S, ", _")) {
					e.Count("tolerated.C10-underscore-group-with-crosstab")
					continue
				}
				if strings.Contains(op.S, "LEN(") && pushdown {
					// goexpr.Len reports its argument as a one-to-one parameter
					if e.Known("C11-len-counts-as-one-to-one") {
						continue
					}
					return &Violation{"len-counts-as-one-to-one", fmt.Sprintf("%q is pushed down whole over %d partitions although LEN() maps different values of a partition key to the same group (goexpr.Len.WalkOneToOneParams walks its argument; planner.TestPlans expects this pushdown): %s", op.S, n, diff)}
				}
				return &Violation{"plans-differ", fmt.Sprintf("%q over %d partitions (placement respects partitionBy %v; plan:\n%s) differs from the local plan over the union: %s", op.S, n, t.PartitionBy, planText, diff)}
			}
			if pushdown && len(qu.Rows) > 0 {
				// every output group is confined to one partition
				seen := map[string]int{}
				for pi := 0; pi < n; pi++ {
					qp := parts[pi].Query(op.S, QOpts{IncludeMem: true})
					if qp.Err != nil {
						continue
					}
					ks := map[string]bool{}
					for _, r := range qp.Rows {
						ks[fmt.Sprintf("%s@%d", r.Key, r.TS)] = true
					}
					for k := range ks {
						seen[k]++
					}
				}
				for k, c := range seen {
					if c > 1 && !hasOrderOrLimit(op.S) {
						return &Violation{"pushdown-not-confined", fmt.Sprintf("%q was pushed down whole although output group %s exists on %d partitions", op.S, k, c)}
					}
				}
			}
			if len(qu.Rows) > 0 {
				e.Count("nontrivial")
			}
		}
		e.Sleep(0)
	}
	leader.Abandon()
	union.Abandon()
	for _, pn := range parts {
		pn.Abandon()
	}
	return nil
}

func hasOrderOrLimit(s string) bool { return false }

// textualRewriteSuspect: one of the texts the non-pushdown rewrite searches
// for ("group by ", "having ", "order by ", "limit ") occurs inside a string
// literal or a subquery, before the clause of the outer query.
func textualRewriteSuspect(s string) bool {
	l := strings.ToLower(s)
	for _, kw := range []string{"group by ", "having ", "order by ", "limit "} {
		first := strings.Index(l, kw)
		if first < 0 {
			continue
		}
		depth, quote := 0, false
		for i := 0; i < first; i++ {
			switch l[i] {
			case '\'':
				quote = !quote
			case '(':
				if !quote {
					depth++
				}
			case ')':
				if !quote {
					depth--
				}
			}
		}
		if depth > 0 || quote {
			return true
		}
	}
	return false
}

var _ planner.QueryClusterFN
