package zsim

import (
	"encoding/json"
	"fmt"
	"math"
	"strings"
	"time"

	"github.com/getlantern/zenodb"
)

func init() {
	register(&PropDef{ID: "C15", Gen: genC15, Exec: execC15})
}

func cloneExpr(e *FieldExpr) *FieldExpr {
	b, _ := json.Marshal(e)
	out := &FieldExpr{}
	json.Unmarshal(b, out)
	return out
}

// expandRefs replaces references to earlier fields by copies of their
// definitions, so that fields do not depend on each other by name.
func expandRefs(t *TableDef) {
	var expand func(e *FieldExpr, depth int) *FieldExpr
	expand = func(e *FieldExpr, depth int) *FieldExpr {
		if e == nil || depth > 8 {
			return e
		}
		switch e.Kind {
		case "ref":
			f := t.field(e.Ref)
			if f == nil || (f.E.Kind == "ref" && f.E.Ref == e.Ref) {
				return &FieldExpr{Kind: "agg", Fn: "SUM", X: e.Ref}
			}
			return expand(cloneExpr(f.E), depth+1)
		case "bin":
			e.L, e.R = expand(e.L, depth+1), expand(e.R, depth+1)
		case "if":
			e.Sub = expand(e.Sub, depth+1)
		}
		return e
	}
	out := make([]FieldDef, len(t.Fields))
	for i, f := range t.Fields {
		out[i] = FieldDef{Name: f.Name, E: expand(cloneExpr(f.E), 0), Since: f.Since}
	}
	t.Fields = out
}

func genC15(seed uint64, tier string) *Plan {
	r := NewRng(seed, 15)
	u := genUniverse(r)
	p := &Plan{Prop: "C15", Seed: seed, World: "S"}
	p.Cfg.CoalesceNanos = int64(time.Millisecond)
	p.Cfg.VirtualTime = r.Bool(0.3)
	p.Tables = genSchema(r, u, SchemaOpts{MaxTables: 2, AllowRaw: true, RetMin: 40 * time.Minute, RetMax: 3 * time.Hour})
	for i := range p.Tables {
		expandRefs(&p.Tables[i])
	}
	span := int64(PickOne(r, []time.Duration{10 * time.Second, 2 * time.Minute}))
	streams := streamsOf(p.Tables)
	cur := make([]TableDef, len(p.Tables))
	copy(cur, p.Tables)
	var initial []TableDef
	{
		b, _ := json.Marshal(p.Tables)
		json.Unmarshal(b, &initial)
	}
	n := r.Range(5, 45)
	var pts []*Point
	fresh := 100
	for i := 0; i < n; i++ {
		// points are generated against the current definitions (WHERE!)
		pt := genPoint(r, u, cur, PointOpts{SpanNanos: span, Streams: streams, NoOdd: true}, pts, i)
		// later WHEREs must not be Unknown for earlier-generated dims either:
		// include all predicate dims always
		for _, d := range u.Dims {
			if d.Pred {
				if _, ok := kvGet(pt.Dims, d.Name); !ok {
					pt.Dims = append(pt.Dims, KV{d.Name, PickOne(r, d.Domain)})
				}
			}
		}
		pts = append(pts, pt)
		p.Ops = append(p.Ops, Op{K: "ins", Dt: PickOne(r, insDts), P: pt})
		if r.Bool(0.12) {
			p.Ops = append(p.Ops, Op{K: "flush", Dt: PickOne(r, insDts)})
		}
		if r.Bool(0.1) {
			p.Ops = append(p.Ops, Op{K: "adv", Dt: PickOne(r, advDts[:4])})
		}
		if r.Bool(0.04) && !p.Cfg.VirtualTime {
			p.Ops = append(p.Ops, Op{K: "restart", Dt: int64(time.Millisecond)})
		}
		if r.Bool(0.15) {
			ti := r.Intn(len(cur))
			nt := cur[ti]
			nt.Fields = append([]FieldDef(nil), nt.Fields...)
			// permute
			if r.Bool(0.6) {
				r.Shuffle(len(nt.Fields), func(a, b int) { nt.Fields[a], nt.Fields[b] = nt.Fields[b], nt.Fields[a] })
			}
			// drop
			if len(nt.Fields) > 1 && r.Bool(0.4) {
				k := r.Intn(len(nt.Fields))
				nt.Fields = append(nt.Fields[:k:k], nt.Fields[k+1:]...)
			}
			// redefine: same name, another expression (the stored values of the
			// old expression must not be inherited)
			if len(nt.Fields) > 0 && r.Bool(0.3) {
				k := r.Intn(len(nt.Fields))
				ne := genFieldExpr(r, u, nil, 2)
				dup := false
				for _, ex := range nt.Fields {
					if resolvedSQL(&nt, ex.E) == resolvedSQL(&nt, ne) {
						dup = true
					}
				}
				for _, old := range p.Tables[ti].Fields {
					if resolvedSQL(&nt, old.E) == resolvedSQL(&nt, ne) {
						dup = true
					}
				}
				if !dup {
					nt.Fields[k] = FieldDef{Name: nt.Fields[k].Name, E: ne}
				}
			}
			// add
			for a := 0; a < r.Range(0, 2); a++ {
				fd := FieldDef{Name: fmt.Sprintf("n%d", fresh)}
				fresh++
				if r.Bool(0.25) {
					fd.E = &FieldExpr{Kind: "raw", Raw: PickOne(r, rawFieldChoices[:2])}
				} else {
					fd.E = genFieldExpr(r, u, nil, 2)
				}
				dup := false
				for _, ex := range nt.Fields {
					if resolvedSQL(&nt, ex.E) == resolvedSQL(&nt, fd.E) {
						dup = true
					}
				}
				// also not a duplicate of anything the table ever had
				for _, old := range p.Tables[ti].Fields {
					if resolvedSQL(&nt, old.E) == resolvedSQL(&nt, fd.E) {
						dup = true
					}
				}
				if dup {
					continue
				}
				pos := r.Intn(len(nt.Fields) + 1)
				nt.Fields = append(nt.Fields[:pos:pos], append([]FieldDef{fd}, nt.Fields[pos:]...)...)
			}
			// where
			if r.Bool(0.3) {
				if r.Bool(0.3) {
					nt.Where = nil
				} else {
					nt.Where = genPred(r, u, 1)
				}
			}
			cur[ti] = nt
			cp := nt
			aop := Op{K: "alter", Dt: PickOne(r, insDts), T: &cp}
			if !p.Cfg.VirtualTime && r.Bool(0.25) {
				// the definition changes while the process is down (schema
				// file edited, then a restart): no flush under the new fields
				aop.B = true
			}
			p.Ops = append(p.Ops, aop)
			// remember every field the table ever had (for the duplicate check)
			p.Tables[ti].Fields = append(p.Tables[ti].Fields[:len(p.Tables[ti].Fields):len(p.Tables[ti].Fields)], nt.Fields...)
		}
		if r.Bool(0.06) {
			p.Ops = append(p.Ops, Op{K: "check", Dt: 1000})
		}
	}
	// p.Tables was used as a scratch list of all fields above
	p.Tables = initial
	p.Ops = append(p.Ops, Op{K: "check", Dt: 1000}, Op{K: "flush", Dt: 1000}, Op{K: "check", Dt: 1000})
	if !p.Cfg.VirtualTime {
		// (a virtual clock does not survive a restart, and with it the window)
		p.Ops = append(p.Ops, Op{K: "restart", Dt: int64(time.Millisecond)}, Op{K: "check", Dt: 1000})
	}
	maybeYield(r, p, 0.4)
	return p
}

func execC15(e *Env, p *Plan) error {
	cur := make([]TableDef, len(p.Tables))
	copy(cur, p.Tables)
	n, err := e.OpenNode("n0", e.Root+"/n0", dbOpts(&p.Cfg), cur)
	if err != nil {
		return err
	}
	m := NewModel(append([]TableDef(nil), cur...))
	compared := 0
	check := func(stage string) error {
		e.Settle()
		for _, name := range sortedTables(m) {
			mt := m.Tables[name]
			for _, mem := range []bool{true} {
				q := n.Query("SELECT * FROM "+name, QOpts{IncludeMem: mem})
				if q.Err != nil {
					return &Violation{"query-error", q.Err.Error()}
				}
				if v := compareToModelEnv(e, mt, q, stage); v != nil {
					v.Detail = fmt.Sprintf("current definition of %s: %s; %s", name, mt.Def.SQL(), v.Detail)
					return v
				}
				if len(mt.Rows) > 0 {
					compared++
				}
			}
			// a field-subset query must agree with the full dump
			subs := []string{}
			if len(mt.Def.Fields) > 1 {
				subs = append(subs, mt.Def.Fields[len(mt.Def.Fields)/2].Name)
				newest := 0
				for k := range mt.Def.Fields {
					if mt.Def.Fields[k].Since > mt.Def.Fields[newest].Since {
						newest = k
					}
				}
				if mt.Def.Fields[newest].Name != subs[0] {
					subs = append(subs, mt.Def.Fields[newest].Name)
				}
			}
			for _, sub := range subs {
				qa := n.Prepare("SELECT * FROM "+name, true)
				qs := n.Prepare("SELECT "+sub+" FROM "+name, true)
				ra, rs := qa.Run(QOpts{}), qs.Run(QOpts{})
				if ra.Err == nil && rs.Err == nil {
					ia, is := ra.Field(sub), rs.Field(sub)
					if ia >= 0 && is >= 0 {
						want := map[string]float64{}
						for _, r := range ra.Rows {
							want[fmt.Sprintf("%s@%d", r.Key, r.TS)] = r.Vals[ia]
						}
						got := map[string]bool{}
						for _, r := range rs.Rows {
							got[fmt.Sprintf("%s@%d", r.Key, r.TS)] = true
							if w, ok := want[fmt.Sprintf("%s@%d", r.Key, r.TS)]; ok && !floatClose(w, r.Vals[is]) {
								return &Violation{"subset-mismatch", fmt.Sprintf("%s: field %s of %s is %v in SELECT * but %v in SELECT %s for row %s", stage, sub, name, w, r.Vals[is], sub, rowLine(rs.Fields, &r))}
							}
						}
						// a row whose value for the field is not zero has data
						// for it, so the query for that field alone reports it
						for _, r := range ra.Rows {
							if r.Vals[ia] != 0 && !math.IsNaN(r.Vals[ia]) && !got[fmt.Sprintf("%s@%d", r.Key, r.TS)] {
								return &Violation{"subset-row-missing", fmt.Sprintf("%s: SELECT * FROM %s has row %s with %s = %v, but SELECT %s FROM %s does not return that row (%d of %d rows)", stage, name, rowLine(ra.Fields, &r), sub, r.Vals[ia], sub, name, len(rs.Rows), len(ra.Rows))}
							}
						}
					}
				}
			}
		}
		return nil
	}
	for i := range p.Ops {
		op := &p.Ops[i]
		stepDt(e, op)
		switch op.K {
		case "ins":
			if err := n.Insert(op.P); err != nil {
				return err
			}
			// processed under the definition in force now: drain before
			// anything else happens
			e.Settle()
			m.Offer(op.P, math.MinInt64)
		case "flush":
			n.DB.FlushAll()
		case "restart":
			nn, err := e.RestartClean(n, dbOpts(&p.Cfg), cur)
			if err != nil {
				return &Violation{"restart-failed", err.Error()}
			}
			n = nn
		case "alter":
			e.Settle()
			nt := *op.T
			mt := m.Tables[nt.Name]
			if mt == nil {
				continue
			}
			// model: retained fields keep their Since, new ones start now
			old := mt.Def
			for k := range nt.Fields {
				nt.Fields[k].Since = len(mt.Accepted)
				for _, of := range old.Fields {
					if of.Name == nt.Fields[k].Name && resolvedSQL(old, of.E) == resolvedSQL(&nt, nt.Fields[k].E) {
						nt.Fields[k].Since = of.Since
					}
				}
			}
			def := nt
			mt.Def = &def
			for k := range cur {
				if cur[k].Name == nt.Name {
					cur[k] = nt
				}
			}
			if op.B {
				nn, err := e.RestartClean(n, dbOpts(&p.Cfg), cur)
				if err != nil {
					return &Violation{"restart-failed", err.Error()}
				}
				n = nn
				e.Count("probe.alter-by-restart")
			} else {
				schema := zenodb.Schema{nt.Name: tableOpts(&nt)}
				if err := n.DB.ApplySchema(schema); err != nil {
					return fmt.Errorf("ApplySchema: %v (%s)", err, nt.SQL())
				}
			}
			e.Sleep(time.Millisecond)
			e.Count("op.alter")
			e.Logf("alter %s -> %s", nt.Name, strings.TrimSpace(nt.SQL()))
		case "check":
			if err := check(fmt.Sprintf("check@op%d", i)); err != nil {
				return err
			}
		}
		e.Sleep(0)
	}
	if compared > 0 && e.Counts["op.alter"] > 0 {
		e.Count("nontrivial")
	}
	n.Close()
	return nil
}
