package zsim

import (
	"fmt"
	"io"
	"os"
	"testing"
	"testing/synctest"
	"time"

	"github.com/getlantern/golog"
	"github.com/getlantern/zenodb"
)

func TestDbg(t *testing.T) {
	golog.SetOutputs(io.Discard, io.Discard)
	dir, _ := os.MkdirTemp("/dev/shm", "zdbg")
	defer os.RemoveAll(dir)
	os.Setenv("TMPDIR", dir)
	func() {
		defer func() { recover() }()
		synctest.Test(t, func(t *testing.T) {
			db, _ := zenodb.NewDB(&zenodb.DBOpts{Dir: dir + "/db", IterationCoalesceInterval: time.Millisecond})
			err := db.CreateTable(&zenodb.TableOpts{Name: "t1", RetentionPeriod: time.Hour, MinFlushLatency: time.Second, MaxFlushLatency: time.Minute,
				SQL: os.Getenv("TSQL")})
			if err != nil {
				t.Fatal(err)
			}
			now := time.Now()
			db.Insert("inbound", now.Add(-10*time.Second), map[string]interface{}{"da": "b"}, map[string]interface{}{"x": 53})
			time.Sleep(200 * time.Millisecond)
			synctest.Wait()
			for _, sql := range []string{"SELECT * FROM t1", os.Getenv("QSQL")} {
				q := QueryDB(db, sql, QOpts{IncludeMem: true})
				fmt.Println(sql, q.Err, q.Fields)
				for _, l := range q.Canon() {
					fmt.Println("   ", l)
				}
			}
			db.Close()
		})
	}()
}
