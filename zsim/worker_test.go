package zsim

import (
	"bufio"
	"encoding/json"
	"fmt"
	"io"
	"os"
	"runtime/pprof"
	"strconv"
	"sync/atomic"
	"testing"
	"time"

	"github.com/getlantern/golog"
)

func envInt(name string, def int64) int64 {
	if s := os.Getenv(name); s != "" {
		if v, err := strconv.ParseInt(s, 10, 64); err == nil {
			return v
		}
	}
	return def
}

// TestWorker is the worker entry point used by zcheck.
//
//	ZSIM_PROP, ZSIM_TIER                 property and tier
//	ZSIM_SEED_START/COUNT/STEP           seeds start, start+step, ...
//	ZSIM_DEADLINE                        unix seconds (real) after which no new run starts
//	ZSIM_OUT                             JSONL results
//	ZSIM_PLAN                            run exactly this plan file instead
//	ZSIM_PLANDIR                         where violating plans are written
//	ZSIM_DUMPPLAN=1                      write every generated plan to ZSIM_PLANDIR
func TestWorker(t *testing.T) {
	prop := os.Getenv("ZSIM_PROP")
	if prop == "" {
		t.Skip("ZSIM_PROP not set")
	}
	if os.Getenv("ZSIM_VERBOSE") == "" {
		golog.SetOutputs(io.Discard, io.Discard)
	}
	defer os.RemoveAll(processRoot())
	tier := os.Getenv("ZSIM_TIER")
	if tier == "" {
		tier = "quick"
	}
	outPath := os.Getenv("ZSIM_OUT")
	var out *bufio.Writer
	if outPath != "" {
		f, err := os.Create(outPath)
		if err != nil {
			t.Fatal(err)
		}
		defer f.Close()
		out = bufio.NewWriter(f)
		defer out.Flush()
	} else {
		out = bufio.NewWriter(os.Stdout)
		defer out.Flush()
	}
	planDir := os.Getenv("ZSIM_PLANDIR")
	emit := func(res *Result) {
		b, _ := json.Marshal(res)
		out.Write(b)
		out.WriteByte('\n')
		out.Flush()
	}

	var current atomic.Value
	var runStart atomic.Int64
	current.Store("")
	// real-time watchdog: a run that takes more than the limit is a harness
	// problem (exit 3), never a violation.
	limit := time.Duration(envInt("ZSIM_RUN_LIMIT_S", 240)) * time.Second
	go func() {
		for {
			time.Sleep(time.Second)
			st := runStart.Load()
			if st != 0 && time.Since(time.Unix(0, st)) > limit {
				fmt.Fprintf(os.Stderr, "WATCHDOG: run %v exceeded %v\n", current.Load(), limit)
				if os.Getenv("ZSIM_WATCHDOG_STACKS") != "" {
					pprof.Lookup("goroutine").WriteTo(os.Stderr, 2)
				}
				if outPath != "" {
					os.WriteFile(outPath+".watchdog", []byte(fmt.Sprint(current.Load())), 0644)
				}
				os.Exit(3)
			}
		}
	}()

	runOne := func(plan *Plan) *Result {
		current.Store(fmt.Sprintf("%s seed=%d", plan.Prop, plan.Seed))
		if outPath != "" {
			os.WriteFile(outPath+".cur", []byte(strconv.FormatUint(plan.Seed, 10)), 0644)
		}
		runStart.Store(time.Now().UnixNano())
		res := RunPlan(t, plan)
		runStart.Store(0)
		if res.Status != "ok" && planDir != "" {
			plan.Signature = res.Sig
			plan.Detail = res.Detail
			plan.EventLogSHA = res.LogSHA
			path := fmt.Sprintf("%s/%s-%d.plan.json", planDir, plan.Prop, plan.Seed)
			if err := writeJSON(path, plan); err == nil {
				res.PlanFile = path
			}
		}
		return res
	}

	if pf := os.Getenv("ZSIM_PLAN"); pf != "" {
		plan, err := readPlan(pf)
		if err != nil {
			t.Fatal(err)
		}
		reps := int(envInt("ZSIM_REPS", 1))
		for i := 0; i < reps; i++ {
			res := runOne(plan)
			if os.Getenv("ZSIM_VERBOSE") != "" {
				fmt.Fprintf(os.Stderr, "status=%s sig=%s\n%s\n", res.Status, res.Sig, res.Detail)
			}
			emit(res)
		}
		return
	}

	def := Props[prop]
	if def == nil {
		t.Fatalf("unknown property %s", prop)
	}
	start := uint64(envInt("ZSIM_SEED_START", 1))
	count := envInt("ZSIM_SEED_COUNT", 10)
	step := uint64(envInt("ZSIM_SEED_STEP", 1))
	deadline := envInt("ZSIM_DEADLINE", 0)
	maxRuns := envInt("ZSIM_RECYCLE", 400)
	samples := 0
	for i := int64(0); i < count && i < maxRuns; i++ {
		if deadline != 0 && time.Now().Unix() >= deadline {
			break
		}
		seed := start + uint64(i)*step
		if outPath != "" {
			os.WriteFile(outPath+".cur", []byte(strconv.FormatUint(seed, 10)), 0644)
		}
		plan := def.Gen(seed, tier)
		if os.Getenv("ZSIM_DUMPPLAN") != "" && planDir != "" {
			writeJSON(fmt.Sprintf("%s/%s-%d.gen.json", planDir, prop, seed), plan)
		}
		res := runOne(plan)
		if res.Status == "ok" && res.Nontriv && samples < 2 && res.Sample == nil {
			res.Sample = samplePlan(plan)
			samples++
		}
		emit(res)
	}
	// tell the runner where we stopped
	emit(&Result{Prop: prop, Status: "end"})
}

// samplePlan abbreviates a plan for the evidence file.
func samplePlan(p *Plan) interface{} {
	type sOp struct {
		K  string `json:"k"`
		Dt string `json:"dt,omitempty"`
		A  string `json:"a,omitempty"`
	}
	var tables []string
	for i := range p.Tables {
		tables = append(tables, p.Tables[i].Name+": "+p.Tables[i].SQL())
	}
	var ops []sOp
	for i, op := range p.Ops {
		if i >= 40 {
			ops = append(ops, sOp{K: fmt.Sprintf("... %d more", len(p.Ops)-i)})
			break
		}
		so := sOp{K: op.K, Dt: time.Duration(op.Dt).String()}
		if op.P != nil {
			so.A = fmt.Sprintf("#%d %s ts=%v dims=[%s] vals=[%s]", op.P.ID, op.P.Stream, time.Duration(op.P.TS), CanonKey(op.P.Dims), CanonKey(op.P.Vals))
		} else if op.S != "" {
			so.A = op.S
		}
		ops = append(ops, so)
	}
	return map[string]interface{}{"seed": p.Seed, "world": p.World, "config": p.Cfg, "tables": tables, "ops": ops}
}
