package zsim

// Conn-level simulated network: listeners and dialers whose connections are
// in-memory pipes, so that the real RPC stack (snappy framing, gRPC, msgpack
// codec, rpcserver) runs inside the bubble.

import (
	"fmt"
	"net"
	"sync"
	"time"

	"github.com/getlantern/zenodb"
	"github.com/getlantern/zenodb/rpc"
	rpcserver "github.com/getlantern/zenodb/rpc/server"
)

type PipeNet struct {
	mu        sync.Mutex
	listeners map[string]*pipeListener
}

func NewPipeNet() *PipeNet { return &PipeNet{listeners: map[string]*pipeListener{}} }

type pipeAddr string

func (a pipeAddr) Network() string { return "pipe" }
func (a pipeAddr) String() string  { return string(a) }

type pipeListener struct {
	addr   string
	conns  chan net.Conn
	closed chan struct{}
	once   sync.Once
}

func (l *pipeListener) Accept() (net.Conn, error) {
	select {
	case c := <-l.conns:
		return c, nil
	case <-l.closed:
		return nil, fmt.Errorf("listener %s closed", l.addr)
	}
}
func (l *pipeListener) Close() error   { l.once.Do(func() { close(l.closed) }); return nil }
func (l *pipeListener) Addr() net.Addr { return pipeAddr(l.addr) }

func (n *PipeNet) Listen(addr string) net.Listener {
	l := &pipeListener{addr: addr, conns: make(chan net.Conn, 64), closed: make(chan struct{})}
	n.mu.Lock()
	n.listeners[addr] = l
	n.mu.Unlock()
	return l
}

func (n *PipeNet) Dial(addr string, timeout time.Duration) (net.Conn, error) {
	n.mu.Lock()
	l := n.listeners[addr]
	n.mu.Unlock()
	if l == nil {
		return nil, fmt.Errorf("connection refused: %s", addr)
	}
	c1, c2 := net.Pipe()
	select {
	case l.conns <- c2:
		return c1, nil
	case <-l.closed:
		return nil, fmt.Errorf("connection refused: %s", addr)
	}
}

// ServeRPC starts the real RPC server for db on addr.
func (n *PipeNet) ServeRPC(db *zenodb.DB, addr string, id int, password string) (stop func()) {
	l := n.Listen(addr)
	serve, stopFn := rpcserver.PrepareServer(db, l, &rpcserver.Opts{ID: id, Password: password})
	go serve()
	return func() { stopFn(); l.Close() }
}

// DialRPC connects the real RPC client to addr.
func (n *PipeNet) DialRPC(addr, password string) (rpc.Client, error) {
	return rpc.Dial(addr, &rpc.ClientOpts{Password: password, Dialer: n.Dial})
}
