package zsim

// Conn-level simulated network: listeners and dialers whose connections are
// in-memory pipes, so that the real RPC stack (snappy framing, gRPC, msgpack
// codec, rpcserver) runs inside the bubble.

import (
	"fmt"
	"net"
	"sync"
	"time"

	"github.com/getlantern/zenodb"
	"github.com/getlantern/zenodb/rpc"
	rpcserver "github.com/getlantern/zenodb/rpc/server"
)

type PipeNet struct {
	mu        sync.Mutex
	listeners map[string]*pipeListener
}

func NewPipeNet() *PipeNet { return &PipeNet{listeners: map[string]*pipeListener{}} }

type pipeAddr string

func (a pipeAddr) Network() string { return "pipe" }
func (a pipeAddr) String() string  { return string(a) }

type pipeListener struct {
	addr   string
	conns  chan net.Conn
	closed chan struct{}
	once   sync.Once
}

func (l *pipeListener) Accept() (net.Conn, error) {
	select {
	case c := <-l.conns:
		return c, nil
	case <-l.closed:
		return nil, fmt.Errorf("listener %s closed", l.addr)
	}
}
func (l *pipeListener) Close() error   { l.once.Do(func() { close(l.closed) }); return nil }
func (l *pipeListener) Addr() net.Addr { return pipeAddr(l.addr) }

func (n *PipeNet) Listen(addr string) net.Listener {
	l := &pipeListener{addr: addr, conns: make(chan net.Conn, 64), closed: make(chan struct{})}
	n.mu.Lock()
	n.listeners[addr] = l
	n.mu.Unlock()
	return l
}

func (n *PipeNet) Dial(addr string, timeout time.Duration) (net.Conn, error) {
	n.mu.Lock()
	l := n.listeners[addr]
	n.mu.Unlock()
	if l == nil {
		return nil, fmt.Errorf("connection refused: %s", addr)
	}
	c1, c2 := net.Pipe()
	select {
	case l.conns <- c2:
		return c1, nil
	case <-l.closed:
		return nil, fmt.Errorf("connection refused: %s", addr)
	}
}

// ServeRPC starts the real RPC server for db on addr.
func (n *PipeNet) ServeRPC(db *zenodb.DB, addr string, id int, password string) (stop func()) {
	l := n.Listen(addr)
	serve, stopFn := rpcserver.PrepareServer(db, l, &rpcserver.Opts{ID: id, Password: password})
	go serve()
	return func() { stopFn(); l.Close() }
}

// DialRPC connects the real RPC client to addr.
func (n *PipeNet) DialRPC(addr, password string) (rpc.Client, error) {
	return rpc.Dial(addr, &rpc.ClientOpts{Password: password, Dialer: n.Dial})
}

// ---------------------------------------------------------------------------
// SimNet: a connection-level network between named nodes with faults. Every
// connection is an in-memory pipe whose two ends know which nodes they join;
// a pair of nodes can be cut (connections die, dials are refused), delayed
// (every write waits) or stalled for a while (nothing is carried until the stall runs out); a node can be isolated (process gone).

type SimNet struct {
	mu        sync.Mutex
	listeners map[string]*pipeListener
	conns     map[*simConn]bool
	cut       map[string]bool
	delay     map[string]time.Duration
	stall     map[string]time.Time // the link carries nothing until this instant
	owners    map[interface{}]string // dialing server -> node name
	last      time.Time              // last write on any connection
	onFault   func(kind string)
}

func NewSimNet(onFault func(string)) *SimNet {
	return &SimNet{listeners: map[string]*pipeListener{}, conns: map[*simConn]bool{}, cut: map[string]bool{}, delay: map[string]time.Duration{}, stall: map[string]time.Time{}, owners: map[interface{}]string{}, onFault: onFault}
}

func pairKey(a, b string) string {
	if a > b {
		a, b = b, a
	}
	return a + "|" + b
}

type simConn struct {
	net.Conn
	n        *SimNet
	from, to string
	once     sync.Once
	// writes are queued and carried by a pump goroutine (a network has
	// buffers): the callers hold locks while they write, and a goroutine that
	// sleeps with a lock held stops the bubble's clock
	qmu    sync.Mutex
	queue  []queued
	notify chan struct{}
	done   chan struct{}
	broken bool
}

type queued struct {
	b  []byte
	at time.Time
}

func (n *SimNet) newConn(p net.Conn, from, to string) *simConn {
	c := &simConn{Conn: p, n: n, from: from, to: to, notify: make(chan struct{}, 1), done: make(chan struct{})}
	go c.pump()
	return c
}

func (c *simConn) Write(b []byte) (int, error) {
	n := c.n
	n.mu.Lock()
	dead := n.cut[pairKey(c.from, c.to)] || !n.conns[c]
	n.last = time.Now()
	n.mu.Unlock()
	c.qmu.Lock()
	if c.broken {
		dead = true
	}
	if !dead {
		c.queue = append(c.queue, queued{append([]byte(nil), b...), time.Now()})
	}
	c.qmu.Unlock()
	if dead {
		go c.Close()
		return 0, fmt.Errorf("connection %s-%s reset", c.from, c.to)
	}
	select {
	case c.notify <- struct{}{}:
	default:
	}
	return len(b), nil
}

func (c *simConn) pump() {
	for {
		c.qmu.Lock()
		batch := c.queue
		c.queue = nil
		c.qmu.Unlock()
		if len(batch) == 0 {
			select {
			case <-c.notify:
				continue
			case <-c.done:
				return
			}
		}
		for _, q := range batch {
			n := c.n
			n.mu.Lock()
			k := pairKey(c.from, c.to)
			d, st := n.delay[k], time.Until(n.stall[k])
			delete(n.stall, k)
			n.last = time.Now()
			n.mu.Unlock()
			if st > 0 {
				// (a stall that ran out before anything was sent delays nothing)
				n.onFault("fault.link.stall")
				time.Sleep(st)
			}
			// latency, not bandwidth: every write arrives d after it was made
			if wait := time.Until(q.at.Add(d)); d > 0 && wait > 0 {
				time.Sleep(wait)
			}
			if _, err := c.Conn.Write(q.b); err != nil {
				c.qmu.Lock()
				c.broken = true
				c.queue = nil
				c.qmu.Unlock()
				return
			}
		}
	}
}

func (c *simConn) Close() error {
	c.once.Do(func() {
		c.n.mu.Lock()
		delete(c.n.conns, c)
		c.n.mu.Unlock()
		close(c.done)
	})
	return c.Conn.Close()
}

// Listen (re)creates the listener of a node.
func (n *SimNet) Listen(node string) net.Listener {
	l := &pipeListener{addr: node, conns: make(chan net.Conn, 256), closed: make(chan struct{})}
	n.mu.Lock()
	// (an older listener of the node is left to its server to close: nobody
	// can reach it any more)
	n.listeners[node] = l
	n.mu.Unlock()
	return l
}

// SetOwner tells the net which node a dialing server object belongs to.
func (n *SimNet) SetOwner(owner interface{}, node string) {
	n.mu.Lock()
	n.owners[owner] = node
	n.mu.Unlock()
}

// DialerFor is installed as simhook.ServerDialerFn.
func (n *SimNet) DialerFor(owner interface{}, dest string) func(string, time.Duration) (net.Conn, error) {
	return func(addr string, timeout time.Duration) (net.Conn, error) {
		n.mu.Lock()
		from := n.owners[owner]
		n.mu.Unlock()
		return n.dial(from, dest)
	}
}

func (n *SimNet) dial(from, to string) (net.Conn, error) {
	n.mu.Lock()
	l := n.listeners[to]
	cut := n.cut[pairKey(from, to)]
	n.mu.Unlock()
	if from == "" {
		return nil, fmt.Errorf("dial from a node that is gone")
	}
	if l == nil || cut {
		return nil, fmt.Errorf("connection refused: %s -> %s", from, to)
	}
	p1, p2 := net.Pipe()
	c1 := n.newConn(p1, from, to)
	c2 := n.newConn(p2, from, to)
	n.mu.Lock()
	n.conns[c1], n.conns[c2] = true, true
	n.mu.Unlock()
	select {
	case l.conns <- c2:
		return c1, nil
	case <-l.closed:
		c1.Close()
		c2.Close()
		return nil, fmt.Errorf("connection refused: %s -> %s", from, to)
	}
}

func (n *SimNet) closeWhere(match func(c *simConn) bool) {
	n.mu.Lock()
	var victims []*simConn
	for c := range n.conns {
		if match(c) {
			victims = append(victims, c)
		}
	}
	n.mu.Unlock()
	for _, c := range victims {
		c.Close()
	}
}

// Cut breaks every connection between the two nodes and refuses new ones.
func (n *SimNet) Cut(a, b string) {
	k := pairKey(a, b)
	n.mu.Lock()
	n.cut[k] = true
	n.mu.Unlock()
	n.closeWhere(func(c *simConn) bool { return pairKey(c.from, c.to) == k })
}

func (n *SimNet) Heal(a, b string) {
	n.mu.Lock()
	delete(n.cut, pairKey(a, b))
	n.mu.Unlock()
}

func (n *SimNet) SetDelay(a, b string, d time.Duration) {
	n.mu.Lock()
	n.delay[pairKey(a, b)] = d
	n.mu.Unlock()
}

func (n *SimNet) Stall(a, b string, d time.Duration) {
	n.mu.Lock()
	n.stall[pairKey(a, b)] = time.Now().Add(d)
	n.mu.Unlock()
}

// Isolate removes a node's process from the network: its listener closes, its
// connections die, the server object can no longer dial.
func (n *SimNet) Isolate(node string, owner interface{}) {
	n.mu.Lock()
	// the listener object stays open (closing it would end the server's run
	// loop behind the back of Server.Close): it just cannot be reached
	delete(n.listeners, node)
	delete(n.owners, owner)
	n.mu.Unlock()
	n.closeWhere(func(c *simConn) bool { return c.from == node || c.to == node })
}

// QuietFor reports how long no connection has carried a write.
func (n *SimNet) QuietFor() time.Duration {
	n.mu.Lock()
	defer n.mu.Unlock()
	if n.last.IsZero() {
		return time.Hour
	}
	return time.Since(n.last)
}
