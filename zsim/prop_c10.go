package zsim

import (
	"fmt"
	"os"
	"path/filepath"
	"runtime"
	"sort"
	"strings"
	"time"
)

func init() {
	register(&PropDef{ID: "C10", Gen: genC10, Exec: execC10})
}

func genClusterCfg(r *Rng, p *Plan) {
	p.Cfg.Partitions = PickOne(r, []int{1, 2, 2, 3, 3, 4, 5})
	p.Cfg.Leaders = PickOne(r, []int{1, 1, 2})
	p.Cfg.FollowersPerPart = PickOne(r, []int{1, 1, 2})
	p.Cfg.CoalesceNanos = int64(time.Millisecond)
	p.Cfg.Codec = r.Bool(0.5)
}

func genC10(seed uint64, tier string) *Plan {
	r := NewRng(seed, 10)
	u := genUniverse(r)
	u.NoConst = true
	p := &Plan{Prop: "C10", Seed: seed, World: "CL"}
	genClusterCfg(r, p)
	p.Tables = genSchema(r, u, SchemaOpts{MaxTables: 2, AllowRaw: true, NoShift: true, RetMin: time.Hour, RetMax: 4 * time.Hour, Partition: true})
	span := int64(PickOne(r, []time.Duration{10 * time.Second, time.Minute, 4 * time.Minute}))
	streams := streamsOf(p.Tables)
	n := r.Range(3, 50)
	var pts []*Point
	// followers start following 30-40 s after they were created: inserts may
	// happen before, while and after that
	startAt := PickOne(r, []int64{0, int64(20 * time.Second), int64(36 * time.Second), int64(50 * time.Second)})
	if startAt > 0 {
		p.Ops = append(p.Ops, Op{K: "adv", Dt: startAt})
	}
	for i := 0; i < n; i++ {
		pt := genPoint(r, u, p.Tables, PointOpts{SpanNanos: span, Streams: streams, NoOdd: true}, pts, i)
		pts = append(pts, pt)
		p.Ops = append(p.Ops, Op{K: "ins", Dt: PickOne(r, insDts), P: pt, N: int64(r.Intn(p.Cfg.Leaders))})
		if r.Bool(0.06) {
			p.Ops = append(p.Ops, Op{K: "flushF", Dt: PickOne(r, insDts)})
		}
		if r.Bool(0.1) {
			p.Ops = append(p.Ops, Op{K: "adv", Dt: PickOne(r, []int64{int64(100 * time.Millisecond), int64(2 * time.Second), int64(15 * time.Second)})})
		}
		if r.Bool(0.05) {
			// message delay on one replication link
			p.Ops = append(p.Ops, Op{K: "delay", S: fmt.Sprintf("L%d", r.Intn(p.Cfg.Leaders)), S2: fmt.Sprintf("F%d.%d", r.Intn(p.Cfg.Partitions), r.Intn(p.Cfg.FollowersPerPart)), N: PickOne(r, []int64{0, int64(10 * time.Millisecond), int64(400 * time.Millisecond)})})
		}
	}
	o := AllQ
	o.Limit = false
	o.LimitTotal = true
	o.Shift = false
	o.NoConst = true
	o.DataSpan = span
	o.InSubTables = p.Tables
	if r.Bool(0.6) {
		// followers answer each (sub)query after a latency of their own
		p.Cfg.Extra = map[string]int64{"qlat": int64(PickOne(r, []time.Duration{2 * time.Millisecond, 50 * time.Millisecond, 300 * time.Millisecond}))}
	}
	p.Ops = append(p.Ops, Op{K: "check", Strs: genBattery(r, p, u, o, r.Range(3, 8))})
	if r.Bool(0.3) || os.Getenv("ZSIM_FORCE_REAL") != "" {
		// world CR: whole servers over the simulated connection network (the
		// answer latency then is that of the real RPC stack)
		if p.Cfg.Extra == nil {
			p.Cfg.Extra = map[string]int64{}
		}
		delete(p.Cfg.Extra, "qlat")
		p.Cfg.Extra["real"] = 1
		p.World = "CR"
	}
	return p
}

// waitCaughtUp lets followers start (30 s + 5 s timers), the leader's entry
// pipeline drain (1 s idle poll) and the WAL readers poll.
func clusterSettle(e *Env, c *Cluster) {
	// make sure the follower start-up timers have fired
	if since := e.SimElapsed(); since < 42*time.Second {
		e.Sleep(42*time.Second - since)
	}
	// until no delivery has been crossing a link for four consecutive rounds
	// (a slow link drains its queue one message per delay); bounded by the
	// liveness bound of 5 simulated minutes
	quiet := 0
	for i := 0; i < 280 && quiet < 4; i++ {
		e.Sleep(1100 * time.Millisecond)
		if c.Inflight() == 0 {
			quiet++
		} else {
			quiet = 0
		}
	}
}

// dumpPoints returns per (key,period) the _points a node holds for a table.
func dumpPoints(n *Node, table string) (map[string]float64, error) {
	q := n.Query("SELECT * FROM "+table, QOpts{IncludeMem: true})
	if q.Err != nil {
		return nil, q.Err
	}
	pi := q.Field("_points")
	out := map[string]float64{}
	for _, r := range q.Rows {
		if pi >= 0 && r.Vals[pi] != 0 {
			// (rows with _points=0 are the recorded finding C01-gap-row-const)
			out[fmt.Sprintf("%s@%d", r.Key, r.TS-BaseNanos)] += r.Vals[pi]
		}
	}
	return out, nil
}

// checkRouting: per table the partitions together hold every accepted point
// exactly once, and redundant followers of a partition hold the same.
func checkRouting(e *Env, c *Cluster, d *Node, p *Plan) *Violation {
	for ti := range p.Tables {
		t := &p.Tables[ti]
		want, err := dumpPoints(d, t.Name)
		if err != nil {
			return &Violation{"query-error", err.Error()}
		}
		got := map[string]float64{}
		perPart := map[int]map[string]float64{}
		for _, f := range c.Followers {
			if !f.Up {
				continue
			}
			m, err := dumpPoints(f.N, t.Name)
			if err != nil {
				return &Violation{"query-error", fmt.Sprintf("%s: %v", f.Name, err)}
			}
			if prev, ok := perPart[f.Partition]; ok {
				if !sameFloatMap(prev, m) {
					return &Violation{"redundant-followers-differ", fmt.Sprintf("table %s: followers of partition %d hold different contents: %s vs %s", t.Name, f.Partition, fmtMap(prev), fmtMap(m))}
				}
				continue
			}
			perPart[f.Partition] = m
			for k, v := range m {
				got[k] += v
			}
		}
		if len(perPart) < p.Cfg.Partitions {
			continue
		}
		if !sameFloatMap(want, got) {
			return &Violation{"routing-mismatch", fmt.Sprintf("table %s (partitionBy %v, %d partitions): the partitions together hold %s but a standalone database holds %s", t.Name, t.PartitionBy, p.Cfg.Partitions, fmtMap(got), fmtMap(want))}
		}
		if len(want) > 0 {
			e.Count("probe.routing-checked")
		}
	}
	return nil
}

func sameFloatMap(a, b map[string]float64) bool {
	if len(a) != len(b) {
		return false
	}
	for k, v := range a {
		if w, ok := b[k]; !ok || w != v {
			return false
		}
	}
	return true
}

func fmtMap(m map[string]float64) string {
	keys := make([]string, 0, len(m))
	for k := range m {
		keys = append(keys, k)
	}
	sort.Strings(keys)
	var parts []string
	for i, k := range keys {
		if i >= 12 {
			parts = append(parts, "...")
			break
		}
		parts = append(parts, fmt.Sprintf("%s=%v", k, m[k]))
	}
	return "{" + strings.Join(parts, ", ") + "}"
}

// compareClusterQueries runs the battery on every live leader and on D.
func compareClusterQueries(e *Env, c *Cluster, d *Node, sqls []string, sig string) *Violation {
	for _, sql := range sqls {
		for _, l := range c.Leaders {
			if !l.Up {
				continue
			}
			if c.p.Cfg.Extra["qlat"] > 0 || c.Real || c.p.Prop == "C12" {
				// (C12: how long convergence took depends on the order in which
				// same-instant deliveries happened to run; the queries that follow
				// must not depend on that instant)
				// followers plan the query text when it reaches them: with
				// latency the comparison is only defined while no period
				// boundary passes, so start just after one (resolutions divide
				// a minute, latencies add up to less than a second)
				alignClock(e, int64(time.Millisecond), int64(time.Minute))
			}
			pl, pd := l.N.Prepare(sql, true), d.Prepare(sql, true)
			t0 := time.Now()
			if f := os.Getenv("ZSIM_DEBUG_STACKS"); f != "" {
				go func() {
					time.Sleep(500 * time.Millisecond)
					buf := make([]byte, 8<<20)
					os.WriteFile(f, buf[:runtime.Stack(buf, true)], 0644)
				}()
			}
			ql, qd := pl.Run(QOpts{}), pd.Run(QOpts{})
			if os.Getenv("ZSIM_DEBUG_TIMING") != "" {
				fmt.Fprintf(os.Stderr, "TIMING %q started %v took %v (simulated)\n", sql, t0.Format("15:04:05.000"), time.Since(t0))
			}
			if ql.Panicked && !qd.Panicked && strings.Contains(sql, "CROSSTAB") && strings.Contains(sql, "GROUP BY *") {
				if e.Known("C10-crosstab-with-wildcard-panics-leader") {
					continue
				}
				return &Violation{"crosstab-with-wildcard", fmt.Sprintf("%q panics on the leader (followers group by the wildcard only and return no _crosstab dimension): %v", sql, firstLineOf(ql.Err))}
			}
			if ql.Panicked || qd.Panicked {
				if ql.Panicked != qd.Panicked {
					return &Violation{sig + ":panic", fmt.Sprintf("%q: cluster panicked=%v standalone panicked=%v: %v %v", sql, ql.Panicked, qd.Panicked, ql.Err, qd.Err)}
				}
				e.Count("q.panic")
				continue
			}
			e.Logf("cq %s %q cluster=%d standalone=%d err=%v/%v", l.Name, sql, len(ql.Rows), len(qd.Rows), ql.Err != nil, qd.Err != nil)
			if (ql.Err != nil) != (qd.Err != nil) {
				return &Violation{sig + ":error-mismatch", fmt.Sprintf("%q: through leader %s: %v; standalone: %v", sql, l.Name, ql.Err, qd.Err)}
			}
			if ql.Err != nil {
				e.Count("q.error")
				continue
			}
			if ql.Stats != nil && ql.Stats.NumSuccessfulPartitions != ql.Stats.NumPartitions {
				return &Violation{sig + ":partitions-missing", fmt.Sprintf("%q through leader %s: %d of %d partitions answered (missing %v) although every partition has a live follower", sql, l.Name, ql.Stats.NumSuccessfulPartitions, ql.Stats.NumPartitions, ql.Stats.MissingPartitions)}
			}
			if ok, _ := sameRows(qd, ql); !ok && strings.Contains(sql, "CROSSTAB") && (strings.Contains(sql, "GROUP BY _,") || strings.Contains(sql, ", _,") || strings.HasSuffix(sql, ", _")) {
				// bytemap.Get("_") matches the follower-side helper dimension
				// "_crosstab" (prefix match in the bytemap dependency)
				if e.Known("C10-underscore-group-with-crosstab") {
					continue
				}
				_, diff := sameRows(qd, ql)
				return &Violation{"underscore-group-with-crosstab", fmt.Sprintf("%q answered by the cluster differs from a standalone database: %s", sql, diff)}
			}
			if ok, diff := sameRows(qd, ql); !ok {
				return &Violation{sig, fmt.Sprintf("%q answered by the cluster (leader %s, %d partitions) differs from a standalone database with the same points: %s", sql, l.Name, c.p.Cfg.Partitions, diff)}
			}
			if len(qd.Rows) > 0 {
				e.Count("nontrivial")
			}
		}
	}
	return nil
}

func execC10(e *Env, p *Plan) error {
	c, err := NewCluster(e, p)
	if err != nil {
		return err
	}
	dcfg := p.Cfg
	d, err := e.OpenNode("D", filepath.Join(e.Root, "D"), dbOpts(&dcfg), p.Tables)
	if err != nil {
		return err
	}
	for i := range p.Ops {
		op := &p.Ops[i]
		stepDt(e, op)
		switch op.K {
		case "ins":
			l := c.Leaders[int(op.N)%len(c.Leaders)]
			if err := l.N.Insert(op.P); err != nil {
				return err
			}
			if err := d.Insert(op.P); err != nil {
				return err
			}
			e.Count("op.ins")
		case "flushF":
			for _, f := range c.Followers {
				f.N.DB.FlushAll()
			}
		case "delay":
			c.SetDelay(op.S, op.S2, time.Duration(op.N))
			if op.N > 0 {
				e.Count("fault.link.delay")
			}
		case "check":
			clusterSettle(e, c)
			if v := checkRouting(e, c, d, p); v != nil {
				return v
			}
			if c.Real {
				// a delayed link delays every connection between the two nodes,
				// also the answers to queries; the comparison of clock-relative
				// queries needs them to be fast (see alignClock below)
				for _, l := range c.Leaders {
					for _, f := range c.Followers {
						c.SetDelay(l.Name, f.Name, 0)
					}
				}
				// followers connect their query feeds on their own schedule
				if v := waitForQueryFeeds(e, c, p, time.Now().Add(5*time.Minute)); v != nil {
					return v
				}
			}
			if v := compareClusterQueries(e, c, d, op.Strs, "cluster-differs"); v != nil {
				return v
			}
		}
		e.Sleep(0)
	}
	c.CloseAll()
	d.Abandon()
	return nil
}

func firstLineOf(err error) string {
	if err == nil {
		return ""
	}
	return strings.SplitN(err.Error(), "\n", 2)[0]
}
