package zsim

import (
	"context"
	"fmt"
	"path/filepath"
	"sync"
	"time"
)

func init() {
	register(&PropDef{ID: "C17", Gen: genC17, Exec: execC17})
}

func genC17(seed uint64, tier string) *Plan {
	r := NewRng(seed, 17)
	u := genUniverse(r)
	p := &Plan{Prop: "C17", Seed: seed, World: "S"}
	p.Cfg.CoalesceNanos = int64(PickOne(r, []time.Duration{time.Millisecond, 20 * time.Millisecond, 500 * time.Millisecond, 3 * time.Second}))
	p.Cfg.IterConcurrency = PickOne(r, []int{1, 2, 4})
	span := int64(PickOne(r, []time.Duration{20 * time.Second, 2 * time.Minute}))
	pts := genDataset(r, p, u, SchemaOpts{MaxTables: 2, AllowRaw: true, RetMin: 40 * time.Minute, RetMax: 3 * time.Hour}, 3, 40, span, 0.1, 0.1)
	var late []Op
	if r.Bool(0.5) {
		// no timer flushes; some points arrive after the last flush and stay in
		// the memstore while the queries run, so that disk-only and
		// memstore-inclusive queries differ (and may share one scan)
		p.Cfg.Extra = map[string]int64{"noTimer": 1}
		if r.Bool(0.5) {
			p.Cfg.Extra["stagger"] = 1
		}
		streams := streamsOf(p.Tables)
		for i, n := 0, r.Range(1, 6); i < n; i++ {
			pt := genPoint(r, u, p.Tables, PointOpts{SpanNanos: span, Streams: streams, NoOdd: true}, pts, 300+i)
			pts = append(pts, pt)
			late = append(late, Op{K: "late", P: pt})
		}
	}
	k := r.Range(2, 8)
	o := AllQ
	o.DataSpan = span
	conc := Op{K: "concurrent", Dt: int64(time.Millisecond)}
	for i := 0; i < k; i++ {
		t := &p.Tables[0]
		if r.Bool(0.2) {
			t = &p.Tables[r.Intn(len(p.Tables))]
		}
		q := genQuery(r, t, u, o)
		// arrival offset relative to the coalesce interval: inside, at the edge, outside
		off := int64(0)
		switch r.Intn(4) {
		case 1:
			off = r.Int64N(p.Cfg.CoalesceNanos + 1)
		case 2:
			off = p.Cfg.CoalesceNanos
		case 3:
			off = p.Cfg.CoalesceNanos + r.Int64N(p.Cfg.CoalesceNanos+1)
		}
		sub := Op{K: "q", S: q.SQL(), B: r.Bool(0.8), N: off}
		if len(late) > 0 {
			sub.B = r.Bool(0.5)
		}
		// consumer behaviour: 0 read all, >0 stop after n rows, N2<0: slow consumer
		if r.Bool(0.2) {
			sub.N2 = int64(r.Range(1, 5))
			if r.Bool(0.3) {
				sub.S2 = "err" // the consumer fails instead of stopping cleanly
			}
		}
		if sub.N2 == 0 && r.Bool(0.15) {
			sub.S2 = "slow" // takes 1 ms per row: the shared scan lasts
		}
		if r.Bool(0.15) {
			// a deadline of its own: already over, or over while the scan runs
			// (such queries only perturb the others; their own outcome
			// legitimately depends on how long the shared scan takes)
			sub.Dt = PickOne(r, []int64{1, int64(500 * time.Microsecond), int64(2 * time.Millisecond), int64(10 * time.Millisecond)})
		}
		conc.Sub = append(conc.Sub, sub)
	}
	if len(conc.Sub) >= 2 && r.Bool(0.15) {
		// every query of the batch has a deadline: the first to arrive a short
		// one, the others a minute (those are compared), and somebody is slow
		first := 0
		for j := range conc.Sub {
			if conc.Sub[j].N < conc.Sub[first].N {
				first = j
			}
		}
		for j := range conc.Sub {
			conc.Sub[j].Dt = int64(time.Minute)
			if conc.Sub[j].S2 == "" && conc.Sub[j].N2 == 0 && j != first && r.Bool(0.5) {
				conc.Sub[j].S2 = "slow"
			}
		}
		conc.Sub[first].Dt = PickOne(r, []int64{int64(2 * time.Millisecond), int64(10 * time.Millisecond), int64(40 * time.Millisecond)})
		conc.Sub[first].N = 0
	}
	conc.Sub = append(conc.Sub, late...)
	p.Ops = append(p.Ops, conc)
	maybeYield(r, p, 0.4)
	return p
}

func execC17(e *Env, p *Plan) error {
	tables := p.Tables
	if p.Cfg.Extra["noTimer"] > 0 {
		tables = tablesWithFlush(p.Tables, int64(time.Hour), int64(1000*time.Hour))
	}
	n, err := e.OpenNode("n0", filepath.Join(e.Root, "n0-g0"), dbOpts(&p.Cfg), tables)
	if err != nil {
		return err
	}
	for i := range p.Ops {
		op := &p.Ops[i]
		stepDt(e, op)
		switch op.K {
		case "ins":
			if err := n.Insert(op.P); err != nil {
				return err
			}
		case "flush":
			n.DB.FlushAll()
		case "concurrent":
			e.Settle()
			// freeze the storage split: no timer flush may move data between
			// the solo and the concurrent executions
			n.DB.FlushAll()
			e.Sleep(time.Millisecond)
			// late points stay in the memstore (tables without flush timer)
			var qs []Op
			var latePts []*Point
			for j := range op.Sub {
				if op.Sub[j].K == "late" {
					latePts = append(latePts, op.Sub[j].P)
					time.Sleep(time.Microsecond)
					if err := n.Insert(op.Sub[j].P); err != nil {
						return err
					}
					e.Count("probe.unflushed-during-concurrent")
				} else {
					qs = append(qs, op.Sub[j])
				}
			}
			if len(qs) < len(op.Sub) {
				e.Settle()
			}
			op = &Op{K: op.K, Sub: qs}
			k := len(op.Sub)
			// plan every query twice at the same simulated instant
			solo := make([]*Prepared, k)
			conc := make([]*Prepared, k)
			stagger := p.Cfg.Extra["stagger"] > 0 && k >= 2
			for j := range op.Sub {
				if stagger && j == k/2 {
					// the second half of the batch is planned after a period
					// boundary has passed and a point has arrived in the new
					// newest period: the queries of one scan then have different
					// windows
					res := p.Tables[0].ResNanos
					alignClock(e, int64(time.Millisecond), res)
					now := time.Now().UnixNano()
					for li, pt := range latePts {
						cp := *pt
						cp.TS = now - BaseNanos - int64(li)
						time.Sleep(time.Microsecond)
						if err := n.Insert(&cp); err != nil {
							return err
						}
					}
					e.Settle()
					e.Count("probe.staggered-planning")
				}
				solo[j] = n.Prepare(op.Sub[j].S, op.Sub[j].B)
				conc[j] = n.Prepare(op.Sub[j].S, op.Sub[j].B)
			}
			consumer := func(j int) QOpts {
				stop := op.Sub[j].N2
				ctx := context.Background()
				if d := op.Sub[j].Dt; d > 0 {
					ctx, _ = context.WithTimeout(ctx, time.Duration(d))
				}
				if op.Sub[j].S2 == "err" {
					return QOpts{Ctx: ctx, ErrAt: int(stop)}
				}
				slow := op.Sub[j].S2 == "slow"
				return QOpts{Ctx: ctx, OnRow: func(i int, row *QRow) bool {
					if slow {
						time.Sleep(time.Millisecond)
					}
					if stop > 0 && int64(i+1) >= stop {
						return false
					}
					return true
				}}
			}
			soloRes := make([]*QResult, k)
			for j := range solo {
				soloRes[j] = solo[j].Run(consumer(j))
				// more than the coalesce interval apart
				e.Sleep(time.Duration(p.Cfg.CoalesceNanos) + time.Millisecond)
			}
			concRes := make([]*QResult, k)
			var wg sync.WaitGroup
			for j := range conc {
				wg.Add(1)
				go func(j int) {
					defer wg.Done()
					time.Sleep(time.Duration(op.Sub[j].N))
					concRes[j] = conc[j].Run(consumer(j))
				}(j)
			}
			wg.Wait()
			nonEmpty := 0
			for j := range conc {
				a, b := soloRes[j], concRes[j]
				if d := op.Sub[j].Dt; d > 0 && d < int64(time.Second) {
					e.Count("probe.deadline-query-in-batch")
					continue
				}
				if a.Panicked || b.Panicked {
					e.Count("q.panic")
					continue
				}
				e.Logf("q%d %q solo=%d conc=%d", j, op.Sub[j].S, len(a.Rows), len(b.Rows))
				if ok, diff := sameRows(a, b); !ok {
					sig := "concurrent-differs"
					if (a.Err != nil) != (b.Err != nil) {
						sig = "concurrent-differs:error"
					} else if !op.Sub[j].B {
						sig = "concurrent-differs:disk-only"
					}
					return &Violation{sig, fmt.Sprintf("query %d %q (includeMemStore=%v, stop after %d rows) returned a different result when run together with %d other queries than when run alone: %s\nall queries: %s", j, op.Sub[j].S, op.Sub[j].B, op.Sub[j].N2, k-1, diff, allSQL(op.Sub))}
				}
				if a.Err == nil && len(a.Rows) > 0 {
					nonEmpty++
				}
			}
			if nonEmpty > 0 {
				e.Count("nontrivial")
			}
		}
		e.Sleep(0)
	}
	for deg, c := range e.Counts {
		if len(deg) > 9 && deg[:9] == "coalesce." && deg != "coalesce.1" && c > 0 {
			e.Count("probe.coalesced>1")
			break
		}
	}
	n.Close()
	return nil
}

func allSQL(subs []Op) string {
	s := ""
	for j, o := range subs {
		s += fmt.Sprintf("\n  [%d] +%v %s", j, time.Duration(o.N), o.S)
	}
	return s
}
