package zsim

// World CR: the nodes of the cluster are whole server.Server instances - the
// real follow loop (server.followSource with its back-off and offset
// bookkeeping), the real query-feed loops, the real RPC client and server with
// snappy framing and the msgpack codec - joined by the SimNet instead of TCP
// and TLS (hook ServerDialer, preset Server.Listener).

import (
	"fmt"
	"strings"
	"time"

	"github.com/getlantern/zenodb/server"
)

func (c *Cluster) leaderAddrs() string {
	var parts []string
	nl := c.p.Cfg.Leaders
	if nl <= 0 {
		nl = 1
	}
	for l := 0; l < nl; l++ {
		parts = append(parts, fmt.Sprintf("L%d|%d", l, l))
	}
	return strings.Join(parts, ",")
}

func (c *Cluster) startRealNode(cn *CNode, dir string) error {
	e := c.e
	cfg := &c.p.Cfg
	coalesce := time.Duration(cfg.CoalesceNanos)
	if coalesce <= 0 {
		coalesce = time.Millisecond
	}
	srv := &server.Server{
		DBDir:                     dir,
		Addr:                      cn.Name,
		ID:                        cn.ID,
		AllowZeroID:               true,
		NumPartitions:             cfg.Partitions,
		Insecure:                  true,
		IterationCoalesceInterval: coalesce,
		ClusterQueryConcurrency:   3,
		MaxReconnectWaitTime:      time.Second,
		WALSync:                   time.Duration(cfg.WALSyncNanos),
	}
	if cfg.MaxMemoryRatio > 0 && !cn.Leader {
		srv.MaxMemory = cfg.MaxMemoryRatio
	}
	if v := cfg.Extra["clusterQueryTimeout"]; v > 0 {
		srv.ClusterQueryTimeout = time.Duration(v)
	}
	if v := cfg.Extra["maxFollowQueue"]; v > 0 {
		srv.MaxFollowQueue = int(v)
	}
	if cn.Leader {
		srv.Passthrough = true
	} else {
		srv.Partition = cn.Partition
		srv.Capture = c.leaderAddrs()
		srv.Feed = c.leaderAddrs()
	}
	n := &Node{Name: cn.Name, Dir: dir, env: e, Tables: c.p.Tables, hits: map[string]int{}}
	srv.Panic = func(err interface{}) { e.onDBPanic(n, err) }
	srv.Listener = c.net.Listen(cn.Name)
	c.net.SetOwner(srv, cn.Name)
	db, run, err := srv.Prepare()
	if err != nil {
		return fmt.Errorf("server.Prepare for %s: %v", cn.Name, err)
	}
	n.DB = db
	n.closeFn = srv.Close
	e.mu.Lock()
	e.nodes[db] = n
	e.all = append(e.all, n)
	e.mu.Unlock()
	for i := range c.p.Tables {
		if err := n.CreateTable(&c.p.Tables[i]); err != nil {
			return fmt.Errorf("create table %s: %v", c.p.Tables[i].Name, err)
		}
	}
	go func() {
		if err := run(); err != nil {
			e.Logf("server %s ended: %v", cn.Name, err)
		}
	}()
	cn.srv = srv
	cn.N = n
	cn.Up = true
	return nil
}

// isolate takes a dead node's process off the network.
func (c *Cluster) isolate(cn *CNode) {
	if c.Real && cn.srv != nil {
		c.net.Isolate(cn.Name, cn.srv)
	}
}
