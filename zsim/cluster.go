package zsim

// World CL: leaders and followers are real zenodb.DB instances wired through
// the function-valued seams DBOpts.Follow / DB.Follow and
// DBOpts.RegisterRemoteQueryHandler / DB.RegisterQueryHandler. The transport
// between them is the simulator's: per-link delay, stall, cut and heal, with
// the reconnect policy of server.followSource re-implemented here (stub).

import (
	"context"
	"fmt"
	"hash/fnv"
	"path/filepath"
	"sync"
	"time"

	"github.com/getlantern/bytemap"
	"github.com/getlantern/wal"
	"github.com/getlantern/zenodb"
	"github.com/getlantern/zenodb/common"
	"github.com/getlantern/zenodb/core"
	"github.com/getlantern/zenodb/planner"
	"github.com/getlantern/zenodb/rpc"
	"github.com/getlantern/zenodb/server"
	"github.com/getlantern/zenodb/simhook"
)

type Cluster struct {
	e         *Env
	p         *Plan
	Leaders   []*CNode
	Followers []*CNode // all followers
	Codec     bool
	// CheckCodec: assert the round-trip law on every message (C20)
	CheckCodec bool
	mu         sync.Mutex
	links      map[string]*ReplLink // "leaderID>follower name"
	inflight   int                  // deliveries currently crossing a link
	qfaults    map[string]*QFault   // follower name -> fault for its next query
	qfired     map[string]bool      // follower name -> an injected query fault actually fired
	// Real: every node is a whole server.Server (world CR): the real follow and
	// query-feed loops, RPC client and server, over the SimNet
	Real bool
	net  *SimNet
}

// CNode is a logical cluster node (it survives restarts of its DB instance).
type CNode struct {
	c         *Cluster
	Name      string
	Leader    bool
	ID        int
	Partition int
	N         *Node // current instance
	Up        bool
	gen       int
	// makeFollows / insert callback of the current follower instance
	streams []*followerStream
	queryFn planner.QueryClusterFN
	srv     *server.Server
}

type followerStream struct {
	gen         int
	makeFollows func(sources []int) map[int]*common.Follow
	cb          func(data []byte, newOffset wal.Offset, source int) error
}

// ReplLink is the replication connection leader -> follower for one follower
// stream.
type ReplLink struct {
	c        *Cluster
	leader   *CNode
	follower *CNode
	fs       *followerStream
	follow   *common.Follow
	mu       sync.Mutex
	session  int
	cut      bool // refuse / break until healed
	stallFor time.Duration
	delay    time.Duration
	stopped  bool
}

// QFault describes how a follower's query handler misbehaves.
type QFault struct {
	Kind string // noregister, err-before, err-after-fields, err-mid, retriable, hang, slow
	Rows int
	D    time.Duration
	Once bool
}

func leaderOpts(c *Cfg, id int) *zenodb.DBOpts {
	o := dbOpts(c)
	o.Passthrough = true
	o.ID = id
	o.NumPartitions = c.Partitions
	o.VirtualTime = false
	if v := c.Extra["clusterQueryTimeout"]; v > 0 {
		o.ClusterQueryTimeout = time.Duration(v)
	}
	if v := c.Extra["maxFollowQueue"]; v > 0 {
		o.MaxFollowQueue = int(v)
	}
	return o
}

func NewCluster(e *Env, p *Plan) (*Cluster, error) {
	c := &Cluster{e: e, p: p, Codec: p.Cfg.Codec, links: map[string]*ReplLink{}, qfaults: map[string]*QFault{}, qfired: map[string]bool{}}
	if p.Cfg.Extra["real"] > 0 {
		c.Real = true
		c.net = NewSimNet(func(kind string) { e.Count(kind) })
		simhook.ServerDialerFn = c.net.DialerFor
		e.Count("world.real-servers")
	}
	nl := p.Cfg.Leaders
	if nl <= 0 {
		nl = 1
	}
	for l := 0; l < nl; l++ {
		cn := &CNode{c: c, Name: fmt.Sprintf("L%d", l), Leader: true, ID: l}
		if err := c.startNode(cn, filepath.Join(e.Root, cn.Name)); err != nil {
			return nil, err
		}
		c.Leaders = append(c.Leaders, cn)
	}
	fpp := p.Cfg.FollowersPerPart
	if fpp <= 0 {
		fpp = 1
	}
	for part := 0; part < p.Cfg.Partitions; part++ {
		for k := 0; k < fpp; k++ {
			cn := &CNode{c: c, Name: fmt.Sprintf("F%d.%d", part, k), ID: k, Partition: part}
			if err := c.startNode(cn, filepath.Join(e.Root, cn.Name)); err != nil {
				return nil, err
			}
			c.Followers = append(c.Followers, cn)
		}
	}
	return c, nil
}

// startNode opens a DB instance for the logical node on dir.
func (c *Cluster) startNode(cn *CNode, dir string) error {
	cn.gen++
	gen := cn.gen
	if c.Real {
		return c.startRealNode(cn, dir)
	}
	var opts *zenodb.DBOpts
	if cn.Leader {
		opts = leaderOpts(&c.p.Cfg, cn.ID)
	} else {
		opts = dbOpts(&c.p.Cfg)
		opts.VirtualTime = false
		opts.ID = cn.ID
		opts.NumPartitions = c.p.Cfg.Partitions
		opts.Partition = cn.Partition
		opts.Follow = func(makeFollows func(sources []int) map[int]*common.Follow, cb func(data []byte, newOffset wal.Offset, source int) error) {
			fs := &followerStream{gen: gen, makeFollows: makeFollows, cb: cb}
			c.mu.Lock()
			cn.streams = append(cn.streams, fs)
			c.mu.Unlock()
			c.connectFollower(cn, fs)
		}
		opts.RegisterRemoteQueryHandler = func(db *zenodb.DB, partition int, query planner.QueryClusterFN) {
			cn.queryFn = query
			c.registerHandlers(cn, gen, partition, query)
		}
	}
	n, err := c.e.OpenNode(cn.Name, dir, opts, c.p.Tables)
	if err != nil {
		return err
	}
	cn.N = n
	cn.Up = true
	return nil
}

// connectFollower starts one replication link per leader for the stream.
func (c *Cluster) connectFollower(fn *CNode, fs *followerStream) {
	sources := make([]int, 0, len(c.Leaders))
	for _, l := range c.Leaders {
		sources = append(sources, l.ID)
	}
	follows := fs.makeFollows(sources)
	for _, l := range c.Leaders {
		f := follows[l.ID]
		if f == nil {
			continue
		}
		cp := *f
		link := &ReplLink{c: c, leader: l, follower: fn, fs: fs, follow: &cp}
		c.mu.Lock()
		key := fmt.Sprintf("%s>%s", l.Name, fn.Name)
		if old := c.links[key]; old != nil {
			// inherit the administrative state of the link
			link.cut, link.delay = old.cut, old.delay
			old.mu.Lock()
			old.stopped = true
			old.mu.Unlock()
		}
		c.links[key] = link
		c.mu.Unlock()
		go link.run()
	}
}

// run is the reconnect loop of server.followSource: follow, and on any error
// back off (1 s doubling to 1 min) and follow again from the last offset whose
// delivery to the follower succeeded.
func (l *ReplLink) run() {
	wait := time.Second
	for {
		l.mu.Lock()
		if l.stopped || l.fs.gen != l.follower.gen {
			l.mu.Unlock()
			return
		}
		cut := l.cut
		l.session++
		session := l.session
		f := *l.follow
		l.mu.Unlock()
		leaderUp := l.leader.Up
		if !cut && leaderUp && l.follower.Up {
			done := make(chan struct{})
			delivered := false
			leaderNode := l.leader.N
			go func() {
				defer close(done)
				fc := f
				leaderNode.DB.Follow(&fc, func(data []byte, newOffset wal.Offset) error {
					ok, err := l.deliver(session, leaderNode, data, newOffset)
					if ok {
						delivered = true
					}
					return err
				})
			}()
			// the session ends when a delivery fails; DB.Follow itself may keep
			// blocking on the leader (it only notices with its next entry)
			for {
				time.Sleep(200 * time.Millisecond)
				l.mu.Lock()
				broken := l.session != session || l.stopped
				// the connection dies with either process
				if l.leader.N != leaderNode || !l.leader.Up || !l.follower.Up || l.fs.gen != l.follower.gen {
					broken = true
					if l.session == session {
						l.session++
					}
				}
				l.mu.Unlock()
				if broken {
					break
				}
				select {
				case <-done:
					broken = true
				default:
				}
				if broken {
					break
				}
			}
			if delivered {
				wait = time.Second
			}
			l.c.e.Count("link.session-ended")
		}
		l.mu.Lock()
		stopped := l.stopped || l.fs.gen != l.follower.gen
		l.mu.Unlock()
		if stopped {
			return
		}
		time.Sleep(wait)
		wait *= 2
		if wait > time.Minute {
			wait = time.Minute
		}
	}
}

// deliver carries one WAL entry across the link.
func (l *ReplLink) deliver(session int, leaderNode *Node, data []byte, off wal.Offset) (bool, error) {
	l.mu.Lock()
	if l.session != session || l.stopped || l.cut || leaderNode != l.leader.N || !l.leader.Up || !l.follower.Up || l.fs.gen != l.follower.gen {
		if l.session == session {
			l.session++ // the session is broken
		}
		l.mu.Unlock()
		l.c.e.Count("fault.link.broken-delivery")
		return false, fmt.Errorf("link %s>%s is down", l.leader.Name, l.follower.Name)
	}
	delay, stall := l.delay, l.stallFor
	l.stallFor = 0
	l.mu.Unlock()
	l.c.mu.Lock()
	l.c.inflight++
	l.c.mu.Unlock()
	defer func() {
		l.c.mu.Lock()
		l.c.inflight--
		l.c.mu.Unlock()
	}()
	if stall > 0 {
		l.c.e.Count("fault.link.stall")
		time.Sleep(stall)
	}
	if delay > 0 {
		time.Sleep(delay)
	}
	// a network copies
	d := append([]byte(nil), data...)
	o := append(wal.Offset(nil), off...)
	if l.c.Codec {
		b, err := rpc.Codec.Marshal(&rpc.Point{Data: d, Offset: o})
		if err != nil {
			panic(fmt.Sprintf("harness: codec marshal: %v", err))
		}
		pt := &rpc.Point{}
		if err := rpc.Codec.Unmarshal(b, pt); err != nil {
			panic(fmt.Sprintf("harness: codec unmarshal: %v", err))
		}
		d, o = pt.Data, pt.Offset
		l.c.e.Count("codec.point")
	}
	err := l.fs.cb(d, o, l.leader.ID)
	if err != nil {
		l.mu.Lock()
		if l.session == session {
			l.session++
		}
		l.mu.Unlock()
		return false, err
	}
	l.mu.Lock()
	l.follow.EarliestOffset = o
	l.mu.Unlock()
	l.c.e.Count("link.delivered")
	return true, nil
}

func (c *Cluster) link(leader, follower string) *ReplLink {
	c.mu.Lock()
	defer c.mu.Unlock()
	return c.links[leader+">"+follower]
}

// Cut breaks the link at the next message boundary and refuses reconnects
// until healed.
func (c *Cluster) Cut(leader, follower string) {
	if c.Real {
		c.net.Cut(leader, follower)
		c.e.Count("fault.link.cut")
		return
	}
	if l := c.link(leader, follower); l != nil {
		l.mu.Lock()
		l.cut = true
		l.session++
		l.mu.Unlock()
		c.e.Count("fault.link.cut")
	}
}

func (c *Cluster) Heal(leader, follower string) {
	if c.Real {
		c.net.Heal(leader, follower)
		c.e.Count("fault.link.heal")
		return
	}
	if l := c.link(leader, follower); l != nil {
		l.mu.Lock()
		l.cut = false
		l.mu.Unlock()
		c.e.Count("fault.link.heal")
	}
}

func (c *Cluster) Stall(leader, follower string, d time.Duration) {
	if c.Real {
		c.net.Stall(leader, follower, d)
		return
	}
	if l := c.link(leader, follower); l != nil {
		l.mu.Lock()
		l.stallFor = d
		l.mu.Unlock()
	}
}

func (c *Cluster) SetDelay(leader, follower string, d time.Duration) {
	if c.Real {
		c.net.SetDelay(leader, follower, d)
		return
	}
	if l := c.link(leader, follower); l != nil {
		l.mu.Lock()
		l.delay = d
		l.mu.Unlock()
	}
}

// registerHandlers keeps two query handlers of the follower registered with
// every leader (handlers are single-shot on the leader).
func (c *Cluster) registerHandlers(fn *CNode, gen int, partition int, query planner.QueryClusterFN) {
	for _, l := range c.Leaders {
		// (a real follower keeps ClusterQueryConcurrency handlers registered,
		// 100 by default; a handler re-registers asynchronously after it has
		// answered, and the leader takes handlers without waiting: with only
		// two, a query with two concurrent IN-subqueries could find the pool
		// momentarily empty, depending on goroutine scheduling)
		for k := 0; k < 5; k++ {
			go c.registerOne(l, fn, gen, partition, query)
		}
	}
}

func (c *Cluster) registerOne(l *CNode, fn *CNode, gen int, partition int, query planner.QueryClusterFN) {
	// wait for both ends to be up (this is first called from inside NewDB)
	for !l.Up || !fn.Up {
		time.Sleep(100 * time.Millisecond)
		if fn.gen != gen {
			return
		}
	}
	if fn.gen != gen {
		return
	}
	leaderNode := l.N
	var handler planner.QueryClusterFN
	handler = func(ctx context.Context, sqlString string, isSubQuery bool, subQueryResults [][]interface{}, unflat bool, onFields core.OnFields, onRow core.OnRow, onFlatRow core.OnFlatRow) (interface{}, error) {
		// single shot: register a replacement (as the feed loop of a server does)
		defer func() { go c.registerOne(l, fn, gen, partition, query) }()
		c.mu.Lock()
		noreg := c.qfaults[fn.Name] != nil && c.qfaults[fn.Name].Kind == "noregister"
		c.mu.Unlock()
		if noreg {
			// the follower has no live handler: the connection this handler
			// stood for is gone
			c.e.Count("fault.query.noregister")
			c.mu.Lock()
			c.qfired[fn.Name] = true
			c.mu.Unlock()
			return nil, common.MarkRetriable(fmt.Errorf("follower %s has no live query connection", fn.Name))
		}
		if fn.gen != gen || !fn.Up {
			c.e.Count("fault.query.dead-follower")
			return nil, common.MarkRetriable(fmt.Errorf("follower %s is gone", fn.Name))
		}
		c.mu.Lock()
		qf := c.qfaults[fn.Name]
		if qf != nil && qf.Once {
			delete(c.qfaults, fn.Name)
		}
		c.mu.Unlock()
		fired := func() {
			c.mu.Lock()
			c.qfired[fn.Name] = true
			c.mu.Unlock()
		}
		if qf != nil {
			c.e.Count("fault.query." + qf.Kind)
			switch qf.Kind {
			case "err-before", "retriable", "hang":
				fired()
			}
			switch qf.Kind {
			case "err-before":
				return nil, fmt.Errorf("simulated failure of %s before any result", fn.Name)
			case "retriable":
				return nil, common.MarkRetriable(fmt.Errorf("simulated retriable failure of %s", fn.Name))
			case "hang":
				// no answer until the caller gave up (a follower serves many
				// queries at once: a stuck one does not take the others down,
				// and ends with its connection), at most for a minute
				select {
				case <-ctx.Done():
				case <-time.After(time.Minute):
				}
				time.Sleep(qf.D)
				if err := ctx.Err(); err != nil {
					return nil, err
				}
				return nil, fmt.Errorf("follower %s did not answer", fn.Name)
			case "slow":
				time.Sleep(qf.D)
			}
		}
		if max := c.p.Cfg.Extra["qlat"]; max > 0 {
			// a latency that is a function of the seed, the follower and the
			// query text only (never of the order in which handlers happen to run)
			h := fnv.New64a()
			fmt.Fprintf(h, "%d|%s|%s", c.p.Seed, fn.Name, sqlString)
			if d := time.Duration(h.Sum64() % uint64(max)); d > 0 {
				c.e.Count("fault.query.latency")
				time.Sleep(d)
			}
		}
		rows := 0
		wrapRow := func() error {
			rows++
			if qf != nil && qf.Kind == "err-mid" && rows > qf.Rows {
				fired()
				return fmt.Errorf("simulated failure of %s after %d rows", fn.Name, qf.Rows)
			}
			return nil
		}
		var of core.OnFields = onFields
		if qf != nil && qf.Kind == "err-after-fields" {
			of = func(fields core.Fields) error {
				onFields(c.xferFields(fields))
				fired()
				return fmt.Errorf("simulated failure of %s after the field list", fn.Name)
			}
		} else {
			of = func(fields core.Fields) error { return onFields(c.xferFields(fields)) }
		}
		var or core.OnRow
		var ofr core.OnFlatRow
		if onRow != nil {
			or = func(key bytemap.ByteMap, vals core.Vals) (bool, error) {
				if err := wrapRow(); err != nil {
					return false, err
				}
				k, v := c.xferRow(key, vals)
				return onRow(k, v)
			}
		}
		if onFlatRow != nil {
			ofr = func(row *core.FlatRow) (bool, error) {
				if err := wrapRow(); err != nil {
					return false, err
				}
				return onFlatRow(c.xferFlatRow(row))
			}
		}
		return query(ctx, sqlString, isSubQuery, subQueryResults, unflat, of, or, ofr)
	}
	c.mu.Lock()
	noreg := c.qfaults[fn.Name] != nil && c.qfaults[fn.Name].Kind == "noregister"
	c.mu.Unlock()
	if noreg {
		// try again later
		time.Sleep(time.Second)
		go c.registerOne(l, fn, gen, partition, query)
		return
	}
	leaderNode.DB.RegisterQueryHandler(partition, handler)
}

// xfer* pass query results across the link: by reference, or through the real
// RPC codec (exactly the objects and code gRPC would use, minus HTTP/2).
func (c *Cluster) xferFields(fields core.Fields) core.Fields {
	if !c.Codec {
		return fields
	}
	out := &rpc.RemoteQueryResult{}
	c.roundTrip(&rpc.RemoteQueryResult{Fields: fields}, out)
	c.e.Count("codec.fields")
	c.checkFields(fields, out.Fields)
	return out.Fields
}

func (c *Cluster) xferRow(key bytemap.ByteMap, vals core.Vals) (bytemap.ByteMap, core.Vals) {
	if !c.Codec {
		return key, vals
	}
	out := &rpc.RemoteQueryResult{}
	c.roundTrip(&rpc.RemoteQueryResult{Key: key, Vals: vals}, out)
	c.e.Count("codec.row")
	c.checkBytes("row key", key, out.Key)
	if len(vals) == len(out.Vals) {
		for i := range vals {
			c.checkBytes("series", vals[i], out.Vals[i])
		}
	} else {
		c.checkBytes("series count", []byte{byte(len(vals))}, []byte{byte(len(out.Vals))})
	}
	return out.Key, out.Vals
}

func (c *Cluster) xferFlatRow(row *core.FlatRow) *core.FlatRow {
	if !c.Codec {
		return row
	}
	out := &rpc.RemoteQueryResult{}
	c.roundTrip(&rpc.RemoteQueryResult{Row: row}, out)
	c.e.Count("codec.flatrow")
	if out.Row != nil && row != nil {
		c.checkBytes("flat row key", row.Key, out.Row.Key)
		if row.TS != out.Row.TS || len(row.Values) != len(out.Row.Values) {
			c.checkBytes("flat row shape", []byte(fmt.Sprint(row.TS, len(row.Values))), []byte(fmt.Sprint(out.Row.TS, len(out.Row.Values))))
		} else {
			for i := range row.Values {
				if row.Values[i] != out.Row.Values[i] && !(row.Values[i] != row.Values[i] && out.Row.Values[i] != out.Row.Values[i]) {
					c.checkBytes("flat row value", []byte(fmt.Sprint(row.Values[i])), []byte(fmt.Sprint(out.Row.Values[i])))
				}
			}
		}
	}
	return out.Row
}

func (c *Cluster) roundTrip(in, out interface{}) {
	b, err := rpc.Codec.Marshal(in)
	if err != nil {
		panic(fmt.Sprintf("harness: codec marshal: %v", err))
	}
	if err := rpc.Codec.Unmarshal(b, out); err != nil {
		panic(fmt.Sprintf("harness: codec unmarshal: %v", err))
	}
}

func (c *Cluster) SetQueryFault(follower string, f *QFault) {
	c.mu.Lock()
	if f == nil {
		delete(c.qfaults, follower)
	} else {
		c.qfaults[follower] = f
	}
	c.mu.Unlock()
}

// StopNode closes a node cleanly.
func (c *Cluster) StopNode(cn *CNode) {
	if !cn.Up {
		return
	}
	cn.Up = false
	cn.gen++
	cn.N.Close()
	c.isolate(cn)
	c.e.Count("fault.node.stop")
}

// KillNode takes a crash image of the node and abandons the instance.
func (c *Cluster) KillNode(cn *CNode) {
	if !cn.Up {
		return
	}
	c.e.crashNow(cn.N, "quiescent")
	cn.Up = false
	cn.gen++
	cn.N.Dead = true
	c.isolate(cn)
	cn.N.Abandon()
	c.e.Count("fault.node.kill")
}

// StartNode restarts a stopped/killed node (on its directory, on its crash
// image, or on an empty directory).
func (c *Cluster) StartNode(cn *CNode, empty bool) error {
	if cn.Up {
		return nil
	}
	dir := cn.N.Dir
	if cn.N.Crashed && cn.N.Image != "" {
		dir = cn.N.Image
	}
	if empty {
		dir = filepath.Join(c.e.Root, fmt.Sprintf("%s-empty%d", cn.Name, cn.gen))
		c.e.Count("fault.node.replaced-empty")
	}
	c.e.Sleep(2 * time.Millisecond)
	c.e.Count("fault.node.start")
	if err := c.startNode(cn, dir); err != nil {
		return err
	}
	if cn.Leader && !c.Real {
		// followers register their query handlers with the new instance (the
		// feed loop of a real follower reconnects)
		for _, f := range c.Followers {
			if f.Up && f.queryFn != nil {
				c.registerHandlers(f, f.gen, f.Partition, f.queryFn)
			}
		}
	}
	return nil
}

// ReapCrashed turns nodes whose crash point fired into down nodes.
func (c *Cluster) ReapCrashed() []*CNode {
	var out []*CNode
	for _, cn := range append(append([]*CNode(nil), c.Followers...), c.Leaders...) {
		if cn.Up && cn.N.Crashed {
			cn.Up = false
			cn.gen++
			cn.N.Dead = true
			c.isolate(cn)
			cn.N.Abandon()
			c.e.Count("fault.node.crashpoint")
			out = append(out, cn)
		}
	}
	return out
}

func (c *Cluster) followerByName(name string) *CNode {
	for _, f := range c.Followers {
		if f.Name == name {
			return f
		}
	}
	for _, l := range c.Leaders {
		if l.Name == name {
			return l
		}
	}
	return nil
}

func (c *Cluster) CloseAll() {
	for _, f := range c.Followers {
		if f.Up {
			f.Up = false
			f.gen++
			f.N.Abandon()
		}
	}
	for _, l := range c.Leaders {
		if l.Up {
			l.Up = false
			l.gen++
			l.N.Abandon()
		}
	}
}

// Inflight reports how many deliveries are crossing links right now.
func (c *Cluster) Inflight() int {
	if c.Real {
		// connections that carried data within the last second count as busy
		if c.net.QuietFor() < time.Second {
			return 1
		}
		return 0
	}
	c.mu.Lock()
	defer c.mu.Unlock()
	return c.inflight
}

// QueryFaultFired reports (and resets) whether an injected query fault of the
// follower actually fired.
func (c *Cluster) QueryFaultFired(follower string) bool {
	c.mu.Lock()
	defer c.mu.Unlock()
	f := c.qfired[follower]
	delete(c.qfired, follower)
	return f
}
