package zsim

import (
	"fmt"
	"math"
	"time"
)

func init() {
	register(&PropDef{ID: "C14", Gen: genC14, Exec: execC14})
}

// genC14 generates histories around the moving retention boundary. In
// virtual-time mode the database clock is the largest accepted timestamp, so
// the plan controls it exactly; in real-clock mode the boundary is approached
// by advancing simulated time (with a margin for the 50 ms WAL poll).
func genC14(seed uint64, tier string) *Plan {
	r := NewRng(seed, 14)
	u := genUniverse(r)
	p := &Plan{Prop: "C14", Seed: seed, World: "S"}
	p.Cfg.CoalesceNanos = int64(time.Millisecond)
	p.Cfg.VirtualTime = r.Bool(0.75)
	p.Tables = genSchema(r, u, SchemaOpts{MaxTables: 2, AllowView: true, Resolutions: []time.Duration{time.Second, 2 * time.Second, 5 * time.Second}, RetMin: time.Hour, RetMax: 2 * time.Hour})
	ratio := int64(PickOne(r, []int{3, 4, 6, 10, 30, 200}))
	if !p.Cfg.VirtualTime && ratio > 30 {
		ratio = 30 // simulated hours cost real seconds (50 ms WAL polls)
	}
	var ret int64
	for i := range p.Tables {
		t := &p.Tables[i]
		t.RetNanos = ratio * t.ResNanos
		if p.Tables[i].View {
			base := p.table(t.ViewOf)
			t.ResNanos, t.RetNanos = base.ResNanos, base.RetNanos
			t.SQLOverride, t.MWhere = viewSQL(t, base)
		}
		if t.RetNanos > ret {
			ret = t.RetNanos
		}
		// (an hour: in effect only forced flushes - every tenth flush is a forced one then)
		t.MinFlush = int64(PickOne(r, []time.Duration{time.Millisecond, 100 * time.Millisecond, 5 * time.Second, time.Hour}))
		t.MaxFlush = t.MinFlush * int64(PickOne(r, []int{1, 10}))
	}
	res := p.Tables[0].ResNanos
	streams := streamsOf(p.Tables)
	n := r.Range(5, 45)
	clock := int64(0) // offset from Base of the (expected) database clock
	if !p.Cfg.VirtualTime {
		clock = 0
	}
	var pts []*Point
	for i := 0; i < n; i++ {
		// choose the point's age relative to the clock
		var age int64
		switch r.Intn(10) {
		case 0:
			age = ret // exactly on the boundary
		case 1:
			age = ret + 1
		case 2:
			age = ret - 1
		case 3:
			age = ret + res*int64(r.Range(1, 3))
		case 4:
			age = ret - res*int64(r.Range(1, 3))
		case 5:
			age = 2 * ret
		case 6:
			age = -r.Int64N(2*ret+1) - 1 // newer than the clock: advances it
		case 7:
			age = -res * int64(r.Range(1, 4))
		default:
			age = r.Int64N(ret + 1)
		}
		if !p.Cfg.VirtualTime {
			// keep a margin around the boundary (processing happens up to
			// ~60 ms after the insert) and never insert into the future
			if age < 0 {
				age = r.Int64N(ret/2 + 1)
			}
			if d := age - ret; d > -int64(time.Second) && d < int64(time.Second) {
				age = ret - 2*int64(time.Second)
				if age < 0 {
					age = 0
				}
			}
		}
		pt := genPoint(r, u, p.Tables, PointOpts{SpanNanos: 0, Anchor: 0, Streams: streams, NoOdd: true}, pts, i)
		pt.TS = clock - age
		if p.Cfg.VirtualTime && pt.TS > clock {
			clock = pt.TS // approximately (if some table accepts it)
		}
		pts = append(pts, pt)
		dt := PickOne(r, insDts[:4])
		p.Ops = append(p.Ops, Op{K: "ins", Dt: dt, P: pt, N: age})
		if !p.Cfg.VirtualTime {
			clock += dt + int64(180*time.Millisecond)
		}
		if r.Bool(0.2) {
			p.Ops = append(p.Ops, Op{K: "flush", Dt: PickOne(r, insDts[:3])})
		}
		if !p.Cfg.VirtualTime && r.Bool(0.25) {
			d := PickOne(r, []int64{res, ret / 2, ret, ret + res, 3 * ret})
			p.Ops = append(p.Ops, Op{K: "adv", Dt: d})
			clock += d
		}
		if r.Bool(0.1) {
			p.Ops = append(p.Ops, Op{K: "check", Dt: 1000})
		}
		if r.Bool(0.03) && !p.Cfg.VirtualTime {
			p.Ops = append(p.Ops, Op{K: "restart", Dt: int64(time.Millisecond)})
		}
	}
	p.Ops = append(p.Ops, Op{K: "check", Dt: 1000}, Op{K: "fill", Dt: 1000}, Op{K: "check", Dt: 1000, B: true})
	return p
}

type c14state struct {
	fillStart map[string]int64 // per table: the "expired" threshold when the fill phase began
	e         *Env
	p         *Plan
	n         *Node
	m         *Model
	vclk      int64 // model of the virtual clock (absolute nanos; MinInt64 = zero time)
	id        int
	nontr     bool
	rejected  []string // tables for which the model rejected the last offered point as expired
}

// offer applies the property's acceptance rule: a point older than the
// retention period at the time it is processed is not stored.
func (s *c14state) offer(pt *Point) error {
	abs := BaseNanos + pt.TS
	now := s.vclk
	if !s.p.Cfg.VirtualTime {
		now = time.Now().UnixNano()
	}
	newClk := s.vclk
	for _, name := range sortedTables(s.m) {
		mt := s.m.Tables[name]
		if pt.Stream != mt.Def.Stream {
			continue
		}
		if s.vclk != math.MinInt64 || !s.p.Cfg.VirtualTime {
			if abs < now-mt.Def.RetNanos {
				s.e.Count("probe.rejected-expired")
				if pt.HasNumeric() && EvalPred(mt.Def.effWhere(), pt.Dims) == pTrue {
					s.rejected = append(s.rejected, name)
				}
				continue
			}
			if !s.p.Cfg.VirtualTime && abs < now-mt.Def.RetNanos+int64(500*time.Millisecond) {
				return fmt.Errorf("harness: point %d is inside the ambiguous band of the real-clock boundary", pt.ID)
			}
		}
		switch EvalPred(mt.Def.effWhere(), pt.Dims) {
		case pFalse:
			continue
		case pUnknown:
			return fmt.Errorf("harness: undefined WHERE")
		}
		if abs > newClk {
			newClk = abs
		}
		if pt.HasNumeric() {
			mt.Add(pt)
		}
	}
	if s.p.Cfg.VirtualTime {
		s.vclk = newClk
	}
	return nil
}

func (s *c14state) dbNow() int64 { return s.n.DB.SimNow().UnixNano() }

func (s *c14state) check(final bool, filled map[string]bool) error {
	e, n := s.e, s.n
	e.Settle()
	for _, name := range sortedTables(s.m) {
		mt := s.m.Tables[name]
		t := mt.Def
		// read the clock and plan every query of this table at one simulated
		// instant (planning fixes the window; no time passes in between)
		now := s.dbNow()
		if s.p.Cfg.VirtualTime && s.vclk != math.MinInt64 && now != s.vclk {
			return &Violation{"clock-mismatch", fmt.Sprintf("virtual clock is %d, the largest accepted timestamp is %d", now-BaseNanos, s.vclk-BaseNanos)}
		}
		live := now - t.RetNanos + t.ResNanos    // periods ending after this must be present
		expired := now - t.RetNanos - t.ResNanos // periods ending before this must be gone from windowed queries
		allNames := "_points"
		for _, f := range t.Fields {
			allNames += ", " + f.Name
		}
		// an asOf that differs from the table's own (a query whose range equals
		// the default range is planned without a window; see C07)
		half := time.Unix(0, CeilTo(now-t.RetNanos/2, int64(time.Second))+int64(time.Second)).UTC().Format(time.RFC3339)
		sqls := []string{"SELECT _points FROM " + name, "SELECT " + allNames + " FROM " + name, "SELECT * FROM " + name + " ASOF '" + half + "'"}
		pDump := n.Prepare("SELECT * FROM "+name, true)
		pDisk := n.Prepare("SELECT * FROM "+name, false)
		var pq []*Prepared
		for _, sql := range sqls {
			pq = append(pq, n.Prepare(sql, true))
		}
		// (a)+(b): ungrouped dump
		dump := pDump.Run(QOpts{})
		if dump.Err != nil {
			return &Violation{"query-error", dump.Err.Error()}
		}
		if v := s.compareWindow(mt, dump, "dump", live, math.MinInt64, now); v != nil {
			return v
		}
		// (c): windowed queries
		for qi, sql := range sqls {
			q := pq[qi].Run(QOpts{})
			if q.Err != nil {
				if qi == 2 {
					continue // e.g. asOf before the table's asOf
				}
				return &Violation{"query-error", sql + ": " + q.Err.Error()}
			}
			for i := range q.Rows {
				if q.Rows[i].TS < expired {
					return &Violation{"expired-period-returned", fmt.Sprintf("%q returned period %v of key [%s], which ended more than one resolution before now - retention (now=%v retention=%v)", sql, time.Duration(q.Rows[i].TS-BaseNanos), q.Rows[i].Key, time.Duration(now-BaseNanos), t.Ret())}
				}
			}
			if qi == 2 {
				continue
			}
			if v := s.compareWindow(mt, q, "windowed "+sql, live, expired, now); v != nil {
				return v
			}
		}
		// (d): after >= 10 data-carrying flushes nothing that had expired
		// before they began is left on disk, nor does it reappear
		if final && filled[name] {
			disk := pDisk.Run(QOpts{})
			if disk.Err != nil {
				return &Violation{"query-error", disk.Err.Error()}
			}
			expired := s.fillStart[name]
			for i := range disk.Rows {
				if disk.Rows[i].TS < expired {
					return &Violation{"expired-period-on-disk", fmt.Sprintf("after 10 data-carrying flushes table %s still holds period %v of key [%s] on disk (now=%v retention=%v)", name, time.Duration(disk.Rows[i].TS-BaseNanos), disk.Rows[i].Key, time.Duration(now-BaseNanos), t.Ret())}
				}
			}
			// queries cut their answer to the retention window; the file itself
			// is read through hook H4 (SimOldestOnDisk)
			oldest, nrows, ok, oerr := s.n.DB.SimOldestOnDisk(name)
			if oerr != nil {
				return fmt.Errorf("SimOldestOnDisk(%s): %v", name, oerr)
			}
			if ok && oldest.UnixNano() < expired {
				return &Violation{"expired-period-in-file", fmt.Sprintf("after 10 data-carrying flushes the filestore of table %s (%d rows) still holds a sequence reaching back to period %v, which had expired before those flushes began (now=%v retention=%v)", name, nrows, time.Duration(oldest.UnixNano()-BaseNanos), time.Duration(now-BaseNanos), t.Ret())}
			}
			if ok {
				e.Count("probe.file-inspected")
			}
			for i := range dump.Rows {
				if dump.Rows[i].TS < expired {
					return &Violation{"expired-period-reappeared", fmt.Sprintf("after 10 data-carrying flushes table %s returns period %v of key [%s] (now=%v retention=%v)", name, time.Duration(dump.Rows[i].TS-BaseNanos), dump.Rows[i].Key, time.Duration(now-BaseNanos), t.Ret())}
				}
			}
			e.Count("probe.checked-truncation")
		}
	}
	return nil
}

// compareWindow: every returned row must be a model row with the model's
// values; every model row newer than live must be returned. Rows older than
// ignoreBefore are not compared.
func (s *c14state) compareWindow(mt *MTable, q *QResult, stage string, live, ignoreBefore int64, now int64) *Violation {
	fq := *q
	fq.Rows = nil
	for _, r := range q.Rows {
		if r.TS >= ignoreBefore {
			fq.Rows = append(fq.Rows, r)
		}
	}
	// model restricted to rows that are either live or were returned
	returned := map[string]bool{}
	for _, r := range fq.Rows {
		returned[fmt.Sprintf("%s@%d", r.Key, r.TS)] = true
	}
	fm := &MTable{Def: mt.Def, Rows: map[string]*MRow{}}
	liveRows := 0
	// (a period ending exactly at now - retention + resolution lies wholly
	// inside the window: that happens when the clock stands on a period
	// boundary)
	for id, r := range mt.Rows {
		if r.TS >= live {
			fm.Rows[id] = r
			liveRows++
		}
	}
	// rows at or beyond the boundary may legitimately be partial (merges skip
	// expired parts); they only have to stem from accepted points
	kept := fq.Rows[:0:0]
	for _, r := range fq.Rows {
		if r.TS >= live {
			kept = append(kept, r)
			continue
		}
		if mt.Rows[fmt.Sprintf("%s@%d", r.Key, r.TS)] == nil {
			if pi := q.Field("_points"); !(pi >= 0 && r.Vals[pi] == 0 && tableHasConstBin(mt.Def)) {
				return &Violation{"unexpected-row", fmt.Sprintf("%s: table %s returned row %s for which no accepted point exists", stage, mt.Def.Name, rowLine(q.Fields, &r))}
			}
		}
	}
	fq.Rows = kept
	_ = returned
	if liveRows > 0 {
		s.nontr = true
	}
	if len(mt.Rows) > liveRows {
		s.e.Count("probe.has-expired-rows")
	}
	v := compareToModelEnv(s.e, fm, &fq, stage)
	if v != nil {
		v.Detail = fmt.Sprintf("now=%v retention=%v: %s", time.Duration(now-BaseNanos), mt.Def.Ret(), v.Detail)
	}
	return v
}

func execC14(e *Env, p *Plan) error {
	n, err := openStandalone(e, p, "n0")
	if err != nil {
		return err
	}
	s := &c14state{e: e, p: p, n: n, m: NewModel(p.Tables), vclk: math.MinInt64, id: 5000}
	filled := map[string]bool{}
	for i := range p.Ops {
		op := &p.Ops[i]
		stepDt(e, op)
		switch op.K {
		case "ins":
			if !p.Cfg.VirtualTime {
				// real clock: the plan gives the point's age, the timestamp is
				// taken relative to the simulated clock at execution
				age := op.N
				if age < 0 {
					age = 0
				}
				// keep 1 s away from every table's boundary: the point is
				// processed up to ~60 ms after the insert
				for iter := 0; iter < 3; iter++ {
					for ti := range p.Tables {
						if d := age - p.Tables[ti].RetNanos; d > -int64(time.Second) && d < int64(time.Second) {
							age = p.Tables[ti].RetNanos + 2*int64(time.Second)
						}
					}
				}
				cp := *op.P
				cp.TS = time.Now().UnixNano() - BaseNanos - age
				op = &Op{K: "ins", P: &cp, N: op.N}
			}
			insertedBefore := map[string]int64{}
			for _, name := range sortedTables(s.m) {
				insertedBefore[name] = s.n.DB.TableStats(name).InsertedPoints
			}
			if err := s.n.Insert(op.P); err != nil {
				return err
			}
			// the decision is taken when the point is processed: settle now
			s.rejected = nil
			if err := s.offer(op.P); err != nil {
				return err
			}
			e.Settle()
			// a point that is older than a table's retention when it is
			// processed is not stored there: the table's own count of stored
			// points says whether it was (queries cannot: their window hides it)
			for _, name := range s.rejected {
				if got := s.n.DB.TableStats(name).InsertedPoints; got != insertedBefore[name] {
					return &Violation{"expired-point-stored", fmt.Sprintf("point %d (timestamp %v) was older than the retention of %s (%v) when it was processed, but the table counts %d more stored point(s)", op.P.ID, time.Duration(op.P.TS), name, time.Duration(s.m.Tables[name].Def.RetNanos), got-insertedBefore[name])}
				}
				e.Count("probe.expired-point-count-checked")
			}
		case "flush":
			s.n.DB.FlushAll()
		case "adv":
			e.Count("fault.clockjump")
		case "restart":
			nn, err := e.RestartClean(s.n, dbOpts(&p.Cfg), p.Tables)
			if err != nil {
				return err
			}
			s.n = nn
		case "check":
			if err := s.check(op.B, filled); err != nil {
				return err
			}
		case "fill":
			// ten data-carrying flushes at a (nearly) constant clock
			before := map[string]int{}
			s.fillStart = map[string]int64{}
			for _, name := range sortedTables(s.m) {
				_, fc, _ := s.n.DB.SimStorageShape(name)
				before[name] = fc
				t := s.m.Tables[name].Def
				s.fillStart[name] = s.dbNow() - t.RetNanos - t.ResNanos
			}
			for k := 0; k < 10; k++ {
				for _, stream := range streamsOf(p.Tables) {
					now := s.dbNow()
					pt := &Point{ID: s.id, Stream: stream, TS: now - BaseNanos, Dims: []KV{{"da", StrV("a")}, {"db", IntV(1)}, {"dc", BoolV(true)}}, Vals: []KV{{"x", FloatV(1)}, {"y", FloatV(1)}, {"z", FloatV(1)}}}
					s.id++
					if s.dbNow() < BaseNanos-int64(1e18) {
						pt.TS = 0
					}
					time.Sleep(time.Microsecond)
					if err := s.n.Insert(pt); err != nil {
						return err
					}
					if err := s.offer(pt); err != nil {
						return err
					}
				}
				e.Settle()
				s.n.DB.FlushAll()
				e.Sleep(time.Millisecond)
			}
			for _, name := range sortedTables(s.m) {
				_, fc, _ := s.n.DB.SimStorageShape(name)
				if fc-before[name] >= 10 {
					filled[name] = true
				}
			}
		}
		e.Sleep(0)
	}
	if s.nontr {
		e.Count("nontrivial")
	}
	s.n.Close()
	return nil
}
