package zsim

import (
	"context"
	"fmt"
	"sync"
	"time"
)

func init() {
	register(&PropDef{ID: "C04", Gen: genC04, Exec: execC04})
}

// genDataset produces schema + insert/flush/adv ops shared by several
// properties. span: timestamps lie in [-span, 0].
func genDataset(r *Rng, p *Plan, u *Universe, so SchemaOpts, nMin, nMax int, span int64, flushP, advP float64) []*Point {
	p.Tables = genSchema(r, u, so)
	var pts []*Point
	n := r.Range(nMin, nMax)
	streams := streamsOf(p.Tables)
	for i := 0; i < n; i++ {
		pt := genPoint(r, u, p.Tables, PointOpts{SpanNanos: span, Streams: streams, NoOdd: true}, pts, i)
		pts = append(pts, pt)
		p.Ops = append(p.Ops, Op{K: "ins", Dt: PickOne(r, insDts), P: pt})
		if r.Bool(flushP) {
			p.Ops = append(p.Ops, Op{K: "flush", Dt: PickOne(r, insDts)})
		}
		if r.Bool(advP) {
			p.Ops = append(p.Ops, Op{K: "adv", Dt: PickOne(r, advDts[:4])})
		}
	}
	return pts
}

func genC04(seed uint64, tier string) *Plan {
	r := NewRng(seed, 4)
	u := genUniverse(r)
	p := &Plan{Prop: "C04", Seed: seed, World: "S"}
	p.Cfg.CoalesceNanos = int64(time.Millisecond)
	span := int64(PickOne(r, []time.Duration{20 * time.Second, 2 * time.Minute, 5 * time.Minute}))
	genDataset(r, p, u, SchemaOpts{MaxTables: 2, AllowRaw: true, RetMin: 30 * time.Minute, RetMax: 3 * time.Hour}, 3, 40, span, 0.08, 0.1)
	// storage split: sometimes flush everything at the end, sometimes nothing
	switch r.Intn(3) {
	case 0:
		p.Ops = append(p.Ops, Op{K: "flush", Dt: 1000})
	}
	nq := r.Range(1, 6)
	o := AllQ
	o.DataSpan = span
	o.PctOverFields = true
	for i := 0; i < nq; i++ {
		t := &p.Tables[r.Intn(len(p.Tables))]
		q := genQuery(r, t, u, o)
		if r.Bool(0.5) && q.FromSub == nil {
			// bias: window ending before the newest stored period
			b := -r.Int64N(span + 1)
			a := b - r.Int64N(span+1)
			q.AsOf = absTime(a / int64(time.Second) * int64(time.Second))
			q.Until = absTime(b / int64(time.Second) * int64(time.Second))
			if r.Bool(0.5) {
				q.AsOf = relTime(time.Duration(a) / time.Second * time.Second)
				q.Until = relTime(time.Duration(b) / time.Second * time.Second)
			}
		}
		op := Op{K: "q", Dt: PickOne(r, insDts), S: q.SQL(), B: r.Bool(0.8), S2: t.Name}
		if r.Bool(0.35) {
			// issue the query from inside a running flush of its table: N is the
			// occurrence of the flush site (0 = header written, k = after the
			// k-th row was written) at which it starts
			op.N2 = 1
			op.N = int64(r.Intn(4))
			op.B = r.Bool(0.9)
		}
		if op.N2 == 0 && r.Bool(0.2) {
			// run it next to a second query on the same table (one shared
			// scan), both with deadlines that pass while the scan is fed to slow
			// consumers: queries that fail must not change anything either
			op.N2 = 2
			op.N = PickOne(r, []int64{1, int64(time.Millisecond), int64(3 * time.Millisecond), int64(8 * time.Millisecond)})
			op.Dt = PickOne(r, insDts)
			op.Strs = []string{fmt.Sprint(PickOne(r, []int64{int64(2 * time.Millisecond), int64(5 * time.Millisecond), int64(20 * time.Millisecond)}))}
		}
		p.Ops = append(p.Ops, op)
	}
	maybeYield(r, p, 0.4)
	return p
}

// probeBattery returns the probe queries for a table.
func probeBattery(t *TableDef) []string {
	return []string{
		"SELECT * FROM " + t.Name,
		"SELECT _points FROM " + t.Name + " GROUP BY _",
	}
}

type probeSet struct {
	mem  []*QResult
	disk []*QResult
}

func runProbes(n *Node, tables []TableDef) (*probeSet, error) {
	ps := &probeSet{}
	for i := range tables {
		for _, sql := range probeBattery(&tables[i]) {
			a := n.Query(sql, QOpts{IncludeMem: true})
			if a.Err != nil {
				return nil, fmt.Errorf("probe %s: %v", sql, a.Err)
			}
			ps.mem = append(ps.mem, a)
			b := n.Query(sql, QOpts{IncludeMem: false})
			if b.Err != nil {
				return nil, fmt.Errorf("probe %s: %v", sql, b.Err)
			}
			ps.disk = append(ps.disk, b)
		}
	}
	return ps, nil
}

func execC04(e *Env, p *Plan) error {
	n, err := openStandalone(e, p, "n0")
	if err != nil {
		return err
	}
	// ingest phase
	i := 0
	for ; i < len(p.Ops); i++ {
		op := &p.Ops[i]
		if op.K == "q" {
			break
		}
		stepDt(e, op)
		switch op.K {
		case "ins":
			if err := n.Insert(op.P); err != nil {
				return err
			}
		case "flush":
			n.DB.FlushAll()
		}
		e.Sleep(0)
	}
	e.Settle()
	before, err := runProbes(n, p.Tables)
	if err != nil {
		return err
	}
	rows := 0
	for _, q := range before.mem {
		rows += len(q.Rows)
	}
	for ; i < len(p.Ops); i++ {
		op := &p.Ops[i]
		if op.K != "q" {
			continue
		}
		stepDt(e, op)
		var q *QResult
		if op.N2 == 1 {
			site, want, seen := "flush.headerWritten", 1, 0
			if op.N > 0 {
				site, want = "flush.rowWritten", int(op.N)
			}
			e.mu.Lock()
			e.OnPoint = func(nn *Node, s, tbl string) {
				if q != nil || s != site || tbl != op.S2 {
					return
				}
				if seen++; seen < want {
					return
				}
				q = n.Query(op.S, QOpts{IncludeMem: op.B})
				e.Count("probe.query-during-flush")
			}
			e.mu.Unlock()
			n.DB.FlushAll()
			e.mu.Lock()
			e.OnPoint = nil
			e.mu.Unlock()
		}
		if op.N2 == 2 {
			slow := func(i int, row *QRow) bool { time.Sleep(time.Millisecond); return true }
			var d2 int64
			fmt.Sscan(op.Strs[0], &d2)
			ctx1, cancel1 := context.WithTimeout(context.Background(), time.Duration(op.N))
			ctx2, cancel2 := context.WithTimeout(context.Background(), time.Duration(d2))
			p1, p2 := n.Prepare(op.S, op.B), n.Prepare("SELECT * FROM "+op.S2, op.B)
			var wg sync.WaitGroup
			wg.Add(1)
			go func() { defer wg.Done(); p2.Run(QOpts{Ctx: ctx2, OnRow: slow}) }()
			q = p1.Run(QOpts{Ctx: ctx1, OnRow: slow})
			wg.Wait()
			cancel1()
			cancel2()
			e.Count("probe.deadline-pair")
			if q.Err != nil {
				e.Count("probe.deadline-pair-failed")
			}
		}
		if q == nil {
			q = n.Query(op.S, QOpts{IncludeMem: op.B})
		}
		e.Count("op.q")
		if q.Panicked {
			e.Count("q.panic")
		} else if q.Err != nil {
			e.Count("q.error")
		} else if len(q.Rows) > 0 {
			e.Count("q.nonempty")
		}
		e.Logf("q %q rows=%d err=%v", op.S, len(q.Rows), q.Err != nil)
		after, err := runProbes(n, p.Tables)
		if err != nil {
			return err
		}
		for k := range before.mem {
			if ok, diff := sameRows(before.mem[k], after.mem[k]); !ok {
				return &Violation{"query-changed-data", fmt.Sprintf("after running %q (includeMemStore=%v) the probe %q (memstore included) changed: %s", op.S, op.B, before.mem[k].SQL, diff)}
			}
		}
	}
	// after the next flush the memstore-inclusive view must still be the same
	n.DB.FlushAll()
	e.Sleep(time.Millisecond)
	after, err := runProbes(n, p.Tables)
	if err != nil {
		return err
	}
	for k := range before.mem {
		if ok, diff := sameRows(before.mem[k], after.mem[k]); !ok {
			return &Violation{"data-changed-after-flush", fmt.Sprintf("after the queries and a flush the probe %q changed: %s", before.mem[k].SQL, diff)}
		}
		if ok, diff := sameRows(after.mem[k], after.disk[k]); !ok {
			return &Violation{"disk-differs-after-flush", fmt.Sprintf("after a completed flush the disk-only probe %q differs from the memstore-inclusive one: %s", before.mem[k].SQL, diff)}
		}
	}
	if rows > 0 && e.Counts["op.q"] > 0 {
		e.Count("nontrivial")
	}
	n.Close()
	return nil
}
