package zsim

import (
	"fmt"
	"path/filepath"
	"sort"
	"strings"
	"time"
)

func init() {
	register(&PropDef{ID: "C08", Gen: genC08, Exec: execC08})
}

// keyDimsFor lists the always-present predicate dims that the table keeps in
// its group key.
func keyDimsFor(t *TableDef) []string {
	var out []string
	for _, d := range []string{"da", "db"} {
		if len(t.GroupBy) == 0 {
			out = append(out, d)
			continue
		}
		for _, g := range t.GroupBy {
			if g == d {
				out = append(out, d)
			}
		}
	}
	return out
}

func genKeyPred(r *Rng, u *Universe, dims []string, depth int) *Pred {
	sub := &Universe{EmptyDims: u.EmptyDims}
	for _, d := range u.Dims {
		for _, k := range dims {
			if d.Name == k {
				sub.Dims = append(sub.Dims, d)
			}
		}
	}
	for i := range sub.Dims {
		sub.Dims[i].Pred = true
	}
	return genPred(r, sub, depth)
}

func genC08(seed uint64, tier string) *Plan {
	r := NewRng(seed, 8)
	u := genUniverse(r)
	u.EmptyDims = 0.04
	p := &Plan{Prop: "C08", Seed: seed, World: "S-twin"}
	p.Cfg.CoalesceNanos = int64(time.Millisecond)
	span := int64(PickOne(r, []time.Duration{8 * time.Second, 40 * time.Second, 3 * time.Minute}))
	genDataset(r, p, u, SchemaOpts{MaxTables: 2, AllowRaw: true, NoShift: true, RetMin: 40 * time.Minute, RetMax: 3 * time.Hour}, 3, 50, span, 0.08, 0.05)
	// one WHERE predicate per plan over dims that every table keeps
	common := keyDimsFor(&p.Tables[0])
	for i := range p.Tables {
		var c2 []string
		for _, d := range keyDimsFor(&p.Tables[i]) {
			for _, c := range common {
				if c == d {
					c2 = append(c2, d)
				}
			}
		}
		common = c2
	}
	var pred *Pred
	if len(common) > 0 {
		pred = genKeyPred(r, u, common, 2)
	}
	nq := r.Range(2, 6)
	for i := 0; i < nq; i++ {
		t := &p.Tables[r.Intn(len(p.Tables))]
		o := QGenOpts{Group: true, Window: true, DataSpan: span} // (no SHIFT: C03 covers it)
		q := genQuery(r, t, u, o)
		switch r.Intn(4) {
		case 0:
			if pred != nil {
				wq := *q
				wq.Where = pred
				p.Ops = append(p.Ops, Op{K: "where", S: q.SQL(), S2: wq.SQL()})
				break
			}
			fallthrough
		case 1:
			// HAVING over a selected or unselected table field
			names := fieldNames(t)
			sel := selNames(q.Sel, t)
			f := PickOne(r, names)
			if r.Bool(0.5) && len(sel) > 0 {
				f = PickOne(r, sel)
			}
			if f == "_points" && len(names) > 0 && r.Bool(0.5) {
				f = PickOne(r, names)
			}
			op := PickOne(r, []string{">", "<", ">=", "<=", "=", "<>"})
			c := r.Range(0, 12)
			if r.Bool(0.25) {
				// next to values that differ from it in the seventh digit
				c = PickOne(r, []int{1000000, 1000001, 1000002, 2000001})
				op = PickOne(r, []string{"=", "<>", "=", ">=", "<"})
			}
			if len(names) >= 2 && r.Bool(0.2) {
				// one output name defined twice in the select list: the first
				// definition is the output column, and HAVING is about output values
				fa, fb := PickOne(r, names), PickOne(r, names)
				der := fmt.Sprintf("%s %s %s AS %s", fa, PickOne(r, []string{"+", "-", "*"}), fb, fa)
				dq := *q
				switch r.Intn(3) {
				case 0:
					dq.Sel = []string{"*", der}
				case 1:
					dq.Sel = []string{der, "*"}
				default:
					dq.Sel = []string{fa + " AS n0", fmt.Sprintf("%s + %s AS n0", fb, fa), "_points"}
					fa = "n0"
				}
				hd := dq
				hd.Having = fmt.Sprintf("%s %s %d", fa, op, c)
				p.Ops = append(p.Ops, Op{K: "having", S: hd.SQL(), S2: dq.SQL(), Strs: []string{fa, op, fmt.Sprint(c)}, B: true, N: 1})
				break
			}
			hq := *q
			hq.Having = fmt.Sprintf("%s %s %d", f, op, c)
			plus := *q
			inSel := false
			for _, s := range sel {
				if s == f {
					inSel = true
				}
			}
			if !inSel {
				if len(plus.Sel) == 0 {
					plus.Sel = []string{"*"}
				}
				plus.Sel = append(append([]string(nil), plus.Sel...), f)
			}
			p.Ops = append(p.Ops, Op{K: "having", S: hq.SQL(), S2: plus.SQL(), Strs: []string{f, op, fmt.Sprint(c)}, B: inSel})
		case 2:
			// IN (subquery)
			kd := keyDimsFor(t)
			t2 := &p.Tables[r.Intn(len(p.Tables))]
			kd2 := keyDimsFor(t2)
			var dim string
			for _, a := range kd {
				for _, b := range kd2 {
					if a == b {
						dim = a
					}
				}
			}
			if dim == "" {
				continue
			}
			sub := fmt.Sprintf("SELECT %s FROM %s", dim, t2.Name)
			alone := fmt.Sprintf("SELECT _points FROM %s", t2.Name)
			if len(kd2) > 1 && r.Bool(0.5) {
				w := genKeyPred(r, u, kd2, 1).SQL()
				sub += " WHERE " + w
				alone += " WHERE " + w
			}
			sub += " GROUP BY " + dim
			alone += " GROUP BY " + dim
			if r.Bool(0.4) {
				h := fmt.Sprintf(" HAVING _points %s %d", PickOne(r, []string{">", "<", ">="}), r.Range(0, 4))
				sub += h
				alone += h
			}
			bq := *q
			bq.Where = nil
			bq.WhereRaw = fmt.Sprintf("%s IN (@@LIST@@)", dim)
			if bq.FromSub != nil {
				continue
			}
			p.Ops = append(p.Ops, Op{K: "insub", S: strings.Replace(bq.SQL(), "@@LIST@@", sub, 1), S2: alone, Strs: []string{dim, bq.SQL()}})
		case 3:
			// FROM (subquery): outer sums an inner field over a coarser grouping
			inner := genGroupedQuery(r, t, u)
			items := strings.Split(inner.S2, ",")
			var fields []string
			for _, it := range items {
				if strings.HasPrefix(it, "f:") {
					fields = append(fields, it[2:])
				}
			}
			if len(fields) == 0 || (len(inner.Strs) == 1 && inner.Strs[0] == "*") {
				continue
			}
			f := PickOne(r, fields)
			var outerDims []string
			for _, d := range inner.Strs {
				if d != "_" && r.Bool(0.5) {
					outerDims = append(outerDims, d)
				}
			}
			if len(outerDims) == 0 {
				outerDims = []string{"_"}
			}
			innerSQL := groupedSQL(&inner, t, "")
			outerSQL := fmt.Sprintf("SELECT %s FROM (%s) GROUP BY %s", f, innerSQL, strings.Join(outerDims, ", "))
			p.Ops = append(p.Ops, Op{K: "fromsub", S: outerSQL, S2: innerSQL, Strs: append([]string{f}, outerDims...)})
		}
	}
	if pred != nil {
		p.Ops = append([]Op{{K: "pred", S: pred.SQL(), T: &TableDef{Where: pred}}}, p.Ops...)
	}
	return p
}

func cmpOp(a float64, op string, b float64) bool {
	switch op {
	case ">":
		return a > b
	case "<":
		return a < b
	case ">=":
		return a >= b
	case "<=":
		return a <= b
	case "=":
		return a == b
	case "<>":
		return a != b
	}
	return false
}

func execC08(e *Env, p *Plan) error {
	a, err := e.OpenNode("A", filepath.Join(e.Root, "A"), dbOpts(&p.Cfg), p.Tables)
	if err != nil {
		return err
	}
	var b *Node
	var pred *Pred
	for i := range p.Ops {
		if p.Ops[i].K == "pred" {
			pred = p.Ops[i].T.Where
		}
	}
	if pred != nil {
		b, err = e.OpenNode("B", filepath.Join(e.Root, "B"), dbOpts(&p.Cfg), p.Tables)
		if err != nil {
			return err
		}
	}
	settled := false
	for i := range p.Ops {
		op := &p.Ops[i]
		stepDt(e, op)
		isQ := op.K == "where" || op.K == "having" || op.K == "insub" || op.K == "fromsub"
		if isQ && !settled {
			e.Settle()
			// freeze the storage split
			a.DB.FlushAll()
			if b != nil {
				b.DB.FlushAll()
			}
			e.Sleep(time.Millisecond)
			settled = true
		}
		switch op.K {
		case "ins":
			if b != nil && EvalPred(pred, op.P.Dims) == pUnknown {
				// the predicate compares a dimension the point does not have:
				// whether such a point "satisfies" it is not defined by the
				// property (zenodb's expressions are two-valued over nil)
				e.Count("skipped.point-with-undefined-predicate")
				break
			}
			settled = false
			if err := a.Insert(op.P); err != nil {
				return err
			}
			if b != nil && EvalPred(pred, op.P.Dims) == pTrue {
				if err := b.Insert(op.P); err != nil {
					return err
				}
				e.Count("probe.point-matches-pred")
			}
		case "flush":
			a.DB.FlushAll()
		case "where":
			if b == nil {
				break
			}
			pa, pb := a.Prepare(op.S2, true), b.Prepare(op.S, true)
			qa, qb := pa.Run(QOpts{}), pb.Run(QOpts{})
			if qa.Panicked || qb.Panicked {
				e.Count("q.panic")
				break
			}
			e.Logf("where %q A=%d B=%d", op.S2, len(qa.Rows), len(qb.Rows))
			if ok, diff := sameRows(qa, qb); !ok {
				return &Violation{"where-differs", fmt.Sprintf("%q on all points differs from %q on only the points that satisfy the predicate: %s", op.S2, op.S, diff)}
			}
			if len(qa.Rows) > 0 {
				e.Count("nontrivial")
			}
			e.Count("op.where")
		case "having":
			ph, pp := a.Prepare(op.S, true), a.Prepare(op.S2, true)
			qh, qp := ph.Run(QOpts{}), pp.Run(QOpts{})
			if qh.Panicked || qp.Panicked {
				e.Count("q.panic")
				break
			}
			if (qh.Err != nil) != (qp.Err != nil) {
				return &Violation{"having-error-mismatch", fmt.Sprintf("%q: %v but %q: %v", op.S, qh.Err, op.S2, qp.Err)}
			}
			if qh.Err != nil {
				e.Count("q.error")
				break
			}
			for _, f := range qh.Fields {
				if f == "_having" {
					return &Violation{"having-column-exposed", fmt.Sprintf("%q exposes the helper column: %v", op.S, qh.Fields)}
				}
			}
			fi := qp.Field(op.Strs[0])
			if fi < 0 {
				break // e.g. crosstab renamed the columns
			}
			var c float64
			fmt.Sscan(op.Strs[2], &c)
			want := &QResult{SQL: op.S2, Fields: qh.Fields}
			drop := -1
			if !op.B {
				drop = fi
			}
			for _, r := range qp.Rows {
				if cmpOp(r.Vals[fi], op.Strs[1], c) {
					rr := r
					if drop >= 0 {
						rr.Vals = append(append([]float64(nil), r.Vals[:drop]...), r.Vals[drop+1:]...)
					}
					want.Rows = append(want.Rows, rr)
				}
			}
			if drop >= 0 && len(qp.Fields)-1 != len(qh.Fields) {
				break
			}
			e.Logf("having %q got=%d want=%d", op.S, len(qh.Rows), len(want.Rows))
			if ok, diff := sameRowsTolerant(want, qh); !ok {
				return &Violation{"having-differs", fmt.Sprintf("%q differs from the rows of %q that satisfy %s %s %s: %s", op.S, op.S2, op.Strs[0], op.Strs[1], op.Strs[2], diff)}
			}
			if len(qp.Rows) > 0 {
				e.Count("nontrivial")
			}
			e.Count("op.having")
			if op.N == 1 {
				e.Count("probe.having-duplicate-name")
			}
		case "insub":
			dim := op.Strs[0]
			psub, palone := a.Prepare(op.S, true), a.Prepare(op.S2, true)
			alone := palone.Run(QOpts{})
			if alone.Err != nil || alone.Panicked {
				e.Count("q.error")
				break
			}
			vals := map[string]Val{}
			nullValue := false
			for _, r := range alone.Rows {
				if v, ok := kvGet(r.KeyKVs, dim); ok {
					vals[v.Canon()] = v
				} else {
					nullValue = true
				}
			}
			if nullValue {
				// the subquery returns "no value" for some row, which no literal
				// list can contain
				e.Count("skipped.insub-null-value")
				break
			}
			keys := make([]string, 0, len(vals))
			for k := range vals {
				keys = append(keys, k)
			}
			sort.Strings(keys)
			var lits []string
			for _, k := range keys {
				lits = append(lits, vals[k].SQL())
			}
			if len(lits) == 0 {
				lits = []string{"'no-such-value'"}
				if dim == "db" {
					lits = []string{"-12345"}
				}
			}
			litSQL := strings.Replace(op.Strs[1], "@@LIST@@", strings.Join(lits, ", "), 1)
			// (both planned at the same instant: running the subquery on its own
			// took simulated time)
			psub = a.Prepare(op.S, true)
			plit := a.Prepare(litSQL, true)
			qs, ql := psub.Run(QOpts{}), plit.Run(QOpts{})
			if qs.Panicked || ql.Panicked {
				e.Count("q.panic")
				break
			}
			e.Logf("insub %q sub=%d lit=%d values=%d", op.S, len(qs.Rows), len(ql.Rows), len(vals))
			if ok, diff := sameRows(ql, qs); !ok {
				return &Violation{"in-subquery-differs", fmt.Sprintf("%q differs from %q (the distinct values the subquery returns on its own): %s", op.S, litSQL, diff)}
			}
			if len(ql.Rows) > 0 {
				e.Count("nontrivial")
			}
			e.Count("op.insub")
		case "fromsub":
			pouter, pinner := a.Prepare(op.S, true), a.Prepare(op.S2, true)
			qi, qo := pinner.Run(QOpts{}), pouter.Run(QOpts{})
			if qi.Panicked || qo.Panicked {
				e.Count("q.panic")
				break
			}
			if qi.Err != nil || qo.Err != nil {
				e.Count("q.error")
				if (qi.Err != nil) != (qo.Err != nil) {
					return &Violation{"fromsub-error-mismatch", fmt.Sprintf("%q: %v but %q: %v", op.S, qo.Err, op.S2, qi.Err)}
				}
				break
			}
			f := op.Strs[0]
			dims := op.Strs[1:]
			fi := qi.Field(f)
			if fi < 0 {
				break
			}
			P := qo.Res
			if P <= 0 {
				P = qi.Res
			}
			type bk struct {
				key string
				ts  int64
				sum float64
			}
			exp := map[string]*bk{}
			for _, r := range qi.Rows {
				var kvs []KV
				if !(len(dims) == 1 && dims[0] == "_") {
					for _, d := range dims {
						if v, ok := kvGet(r.KeyKVs, d); ok {
							kvs = append(kvs, KV{d, v})
						}
					}
				}
				T := qo.Until - ((qo.Until-r.TS)/P)*P
				id := fmt.Sprintf("%s@%d", CanonKey(kvs), T)
				if exp[id] == nil {
					exp[id] = &bk{key: CanonKey(kvs), ts: T}
				}
				exp[id].sum += r.Vals[fi]
			}
			want := &QResult{SQL: op.S2, Fields: []string{f}}
			for _, b := range exp {
				want.Rows = append(want.Rows, QRow{TS: b.ts, Key: b.key, Vals: []float64{b.sum}})
			}
			e.Logf("fromsub %q outer=%d expected=%d", op.S, len(qo.Rows), len(want.Rows))
			if len(qo.Fields) != 1 {
				break
			}
			want.Fields = qo.Fields
			if ok, diff := sameRows(want, qo); !ok {
				return &Violation{"from-subquery-differs", fmt.Sprintf("%q differs from summing %s over the rows of %q grouped by %v: %s", op.S, f, op.S2, dims, diff)}
			}
			if len(qo.Rows) > 0 {
				e.Count("nontrivial")
			}
			e.Count("op.fromsub")
		}
		e.Sleep(0)
	}
	a.Close()
	if b != nil {
		b.Close()
	}
	return nil
}

func groupByIndex(sql string) int {
	if i := strings.Index(sql, " GROUP BY "); i >= 0 {
		// the outer GROUP BY is the last one
		return strings.LastIndex(sql, " GROUP BY ")
	}
	return len(sql)
}

// sameRowsTolerant is sameRows, except that rows of b whose values are all
// zero and that are missing from a are tolerated (a HAVING comparison with a
// constant reports a value for periods without data: recorded finding
// C01-gap-row-const).
func sameRowsTolerant(a, b *QResult) (bool, string) {
	if ok, _ := sameRows(a, b); ok {
		return true, ""
	}
	inA := map[string]bool{}
	for i := range a.Rows {
		inA[fmt.Sprintf("%s@%d", a.Rows[i].Key, a.Rows[i].TS)] = true
	}
	fb := *b
	fb.Rows = nil
	for _, r := range b.Rows {
		allZero := true
		for _, v := range r.Vals {
			if v != 0 {
				allZero = false
			}
		}
		if allZero && !inA[fmt.Sprintf("%s@%d", r.Key, r.TS)] {
			continue
		}
		fb.Rows = append(fb.Rows, r)
	}
	return sameRows(a, &fb)
}
