package zsim

import (
	"crypto/sha256"
	"encoding/hex"
	"encoding/json"
	"fmt"
	"os"
	"path/filepath"
	"runtime/debug"
	"sort"
	"strings"
	"testing"
	"testing/synctest"
	"time"

	"github.com/getlantern/zenodb"
)

// PropDef registers a property's generator and executor.
type PropDef struct {
	ID string
	// Gen derives the plan for one seed. idx is the run index inside the
	// batch (used by enumerating properties), tier is quick|thorough.
	Gen func(seed uint64, tier string) *Plan
	// Exec runs the plan inside the bubble. It returns a *Violation or nil;
	// any other error is a harness error.
	Exec func(e *Env, p *Plan) error
	// DeadlockIsViolation: a bubble deadlock counts against the property.
	DeadlockIsViolation bool
}

var Props = map[string]*PropDef{}

func register(p *PropDef) { Props[p.ID] = p }

func tmpRoot() string {
	if d := os.Getenv("ZSIM_TMP"); d != "" {
		return d
	}
	if st, err := os.Stat("/dev/shm"); err == nil && st.IsDir() {
		return "/dev/shm"
	}
	return os.TempDir()
}

var procRoot string

func processRoot() string {
	if procRoot == "" {
		procRoot = filepath.Join(tmpRoot(), fmt.Sprintf("zsim.%d", os.Getpid()))
		os.MkdirAll(procRoot, 0755)
	}
	return procRoot
}

// dbOpts builds DBOpts for a standalone node from the plan config.
func dbOpts(c *Cfg) *zenodb.DBOpts {
	o := &zenodb.DBOpts{
		VirtualTime:               c.VirtualTime,
		IterationCoalesceInterval: time.Duration(c.CoalesceNanos),
		IterationConcurrency:      c.IterConcurrency,
		MaxMemoryRatio:            c.MaxMemoryRatio,
		WALSyncInterval:           time.Duration(c.WALSyncNanos),
		ClusterQueryConcurrency:   100,
	}
	if o.IterationCoalesceInterval <= 0 {
		o.IterationCoalesceInterval = time.Millisecond
	}
	return o
}

// RunPlan executes one plan in a fresh bubble and classifies the outcome.
func RunPlan(t *testing.T, plan *Plan) (res *Result) {
	def := Props[plan.Prop]
	if def == nil {
		return &Result{Prop: plan.Prop, Seed: plan.Seed, Status: "harness_error", Detail: "unknown property"}
	}
	res = &Result{Prop: plan.Prop, Seed: plan.Seed, Status: "ok", NOps: len(plan.Ops)}
	root := filepath.Join(processRoot(), fmt.Sprintf("run-%d", plan.Seed))
	os.RemoveAll(root)
	os.MkdirAll(root, 0755)
	defer os.RemoveAll(root)
	wall := time.Now()
	var env *Env
	var execErr error
	var panicVal interface{}
	var panicStack string
	finished := false
	func() {
		defer func() {
			if r := recover(); r != nil {
				msg := fmt.Sprint(r)
				if strings.Contains(msg, "deadlock:") && finished {
					return // leaked background goroutines of closed DBs: expected
				}
				panicVal = r
				panicStack = string(debug.Stack())
			}
		}()
		synctest.Test(t, func(t *testing.T) {
			defer func() {
				if r := recover(); r != nil {
					panicVal = r
					panicStack = string(debug.Stack())
				}
				finished = true
			}()
			env = NewEnv(plan, root)
			execErr = def.Exec(env, plan)
			res.SimNanos = int64(env.SimElapsed())
			// close everything that is still open
			for _, n := range env.all {
				n.Abandon()
			}
		})
	}()
	if env != nil {
		env.Done()
		res.Counts = env.Counts
		res.LogSHA = env.LogSHA()
		if plan.Cfg.Extra["real"] > 0 {
			// world CR: gRPC's reconnect jitter is seeded from the wall clock at
			// process start, so the instants of reconnects (and with them e.g.
			// which entries were in flight at a crash) are not a function of the
			// plan; only status and signature are compared across processes
			res.LogSHA = "world-CR:event-log-not-compared"
		}
		if d := os.Getenv("ZSIM_LOGDIR"); d != "" {
			os.WriteFile(filepath.Join(d, fmt.Sprintf("%s-%d.log", plan.Prop, plan.Seed)), []byte(strings.Join(env.LogLines(), "\n")+"\n"), 0644)
		}
		res.Counts["adjacencies"] = len(env.Adjacencies())
		h := sha256.New()
		for _, a := range env.Adjacencies() {
			h.Write([]byte(a))
		}
		h.Write([]byte(env.TraceSHA()))
		keys := make([]string, 0)
		for k, v := range env.Counts {
			if strings.HasPrefix(k, "shape.") || strings.HasPrefix(k, "fault.") {
				keys = append(keys, fmt.Sprintf("%s=%d", k, v))
			}
		}
		sort.Strings(keys)
		for _, k := range keys {
			h.Write([]byte(k))
		}
		res.Shape = hex.EncodeToString(h.Sum(nil))[:16]
		res.Nontriv = env.Counts["nontrivial"] > 0
		if v := env.AsyncViolation(); v != nil && execErr == nil {
			execErr = v
		}
	}
	res.WallNs = int64(time.Since(wall))
	switch {
	case panicVal != nil:
		msg := fmt.Sprint(panicVal)
		if strings.Contains(msg, "deadlock:") {
			if def.DeadlockIsViolation {
				res.Status, res.Sig = "violation", "deadlock"
			} else {
				res.Status, res.Sig = "harness_error", "deadlock"
			}
			res.Detail = msg
		} else if strings.Contains(panicStack, "github.com/getlantern/zenodb") && !strings.Contains(firstFrames(panicStack, 6), "zsim.") {
			res.Status, res.Sig = "violation", "panic"
			res.Detail = msg + "\n" + panicStack
		} else {
			res.Status, res.Sig = "harness_error", "panic"
			res.Detail = msg + "\n" + panicStack
		}
	case execErr != nil:
		if v, ok := execErr.(*Violation); ok {
			res.Status, res.Sig, res.Detail = "violation", v.Sig, v.Detail
		} else {
			res.Status, res.Sig, res.Detail = "harness_error", "exec", execErr.Error()
		}
	}
	return res
}

func firstFrames(stack string, n int) string {
	lines := strings.Split(stack, "\n")
	// skip the goroutine header, debug.Stack and the deferred func frames
	var out []string
	for _, l := range lines {
		if strings.Contains(l, "runtime/debug") || strings.Contains(l, "runtime/panic") || strings.Contains(l, "run.go") {
			continue
		}
		out = append(out, l)
		if len(out) >= 2*n {
			break
		}
	}
	return strings.Join(out, "\n")
}

func writeJSON(path string, v interface{}) error {
	b, err := json.MarshalIndent(v, "", " ")
	if err != nil {
		return err
	}
	return os.WriteFile(path, b, 0644)
}

func readPlan(path string) (*Plan, error) {
	b, err := os.ReadFile(path)
	if err != nil {
		return nil, err
	}
	p := &Plan{}
	if err := json.Unmarshal(b, p); err != nil {
		return nil, err
	}
	return p, nil
}
