package zsim

import (
	"context"
	"fmt"
	"io"
	"os"
	"testing"
	"testing/synctest"
	"time"

	"github.com/getlantern/golog"
	"github.com/getlantern/zenodb"
	"github.com/getlantern/zenodb/core"
)

func TestSmoke(t *testing.T) {
	golog.SetOutputs(io.Discard, io.Discard)
	dir, _ := os.MkdirTemp("/dev/shm", "zsmoke")
	defer os.RemoveAll(dir)
	os.Setenv("TMPDIR", dir)
	func() {
		defer func() { recover() }()
		synctest.Test(t, func(t *testing.T) {
			db, err := zenodb.NewDB(&zenodb.DBOpts{Dir: dir + "/db", IterationCoalesceInterval: time.Millisecond})
			if err != nil {
				t.Fatal(err)
			}
			err = db.CreateTable(&zenodb.TableOpts{Name: "t", RetentionPeriod: time.Hour, MinFlushLatency: time.Second, MaxFlushLatency: time.Minute,
				SQL: "SELECT SUM(x) AS x FROM inbound GROUP BY a, period(1s)"})
			if err != nil {
				t.Fatal(err)
			}
			now := time.Now()
			for i := 0; i < 5; i++ {
				db.Insert("inbound", now.Add(-time.Duration(i)*time.Second), map[string]interface{}{"a": i % 2}, map[string]interface{}{"x": 1 << i})
			}
			time.Sleep(200 * time.Millisecond)
			synctest.Wait()
			src, err := db.Query("SELECT * FROM t", false, nil, true)
			if err != nil {
				t.Fatal(err)
			}
			n := 0
			_, err = src.Iterate(context.Background(), core.FieldsIgnored, func(row *core.FlatRow) (bool, error) {
				n++
				fmt.Println(row.TS, row.Key.AsMap(), row.Values)
				return true, nil
			})
			fmt.Println("rows", n, err, time.Since(now))
			db.Close()
		})
	}()
}
