package zsim

import (
	"encoding/binary"
	"fmt"
	"hash/crc32"
	"math"
	"os"
	"path/filepath"
	"sort"
	"strings"
	"time"

	"github.com/getlantern/bytemap"
)

func init() {
	register(&PropDef{ID: "C02", Gen: genC02, Exec: execC02, DeadlockIsViolation: true})
}

// crashSites is the list of instrumented steps of the flush / offset-file /
// old-file-removal / open protocols, plus the ingest steps.
var crashSites = []string{
	"flush.begin", "flush.tempCreated", "flush.headerWritten", "flush.rowWritten", "flush.bodyDone",
	"flush.synced", "flush.closed", "flush.renamed", "flush.swapped",
	"offs.begin", "offs.tempCreated", "offs.written", "offs.synced", "offs.closed",
	"gc.beforeRemove", "gc.removed",
	"open.fileChosen",
	"ins.tableRecv", "rs.applied", "ins.done",
}

var failSites = []string{"flush.tempCreate", "flush.sync", "flush.rename", "offs.sync"}

const c02Variants = 100
const c02EnumOcc = 4 // occurrences enumerated per site and base history

// genC02: seeds are grouped in blocks of c02Variants that share one base
// history; variants 0..len(crashSites)*c02EnumOcc-1 enumerate (site,
// occurrence), the rest are sampled fault schedules.
func genC02(seed uint64, tier string) *Plan {
	base := seed / c02Variants
	variant := int(seed % c02Variants)
	r := NewRng(base, 2)
	u := genUniverse(r)
	p := &Plan{Prop: "C02", Seed: seed, World: "S"}
	p.Cfg.CoalesceNanos = int64(time.Millisecond)
	// the virtual clock is volatile (after a restart it only reflects the
	// points that were re-processed), so the window of every query would depend
	// on where the crash happened: crash recovery is checked with the real
	// (simulated) clock only
	_ = r.Bool(0.3)
	p.Cfg.Extra = map[string]int64{}
	p.Tables = genSchema(r, u, SchemaOpts{MaxTables: 2, AllowView: true, RetMin: 40 * time.Minute, RetMax: 3 * time.Hour})
	// flush latencies that make timer-driven flushes likely
	for i := range p.Tables {
		p.Tables[i].MinFlush = int64(PickOne(r, []time.Duration{time.Millisecond, 50 * time.Millisecond, time.Second}))
		p.Tables[i].MaxFlush = p.Tables[i].MinFlush * int64(PickOne(r, []int{1, 4, 30}))
	}
	span := int64(PickOne(r, []time.Duration{10 * time.Second, 2 * time.Minute}))
	n := r.Range(4, 40)
	streams := streamsOf(p.Tables)
	var pts []*Point
	var ops []Op
	for i := 0; i < n; i++ {
		pt := genPoint(r, u, p.Tables, PointOpts{SpanNanos: span, Streams: streams, NoOdd: true}, pts, i)
		pts = append(pts, pt)
		ops = append(ops, Op{K: "ins", Dt: PickOne(r, insDts), P: pt})
		if r.Bool(0.15) {
			ops = append(ops, Op{K: "flush", Dt: PickOne(r, insDts)})
		}
		if r.Bool(0.2) {
			ops = append(ops, Op{K: "adv", Dt: PickOne(r, append(advDts[:4], int64(11*time.Second)))})
		}
	}
	// the fault schedule depends on the variant
	fr := NewRng(seed, 22)
	nEnum := len(crashSites) * c02EnumOcc
	switch {
	case variant < nEnum:
		site := crashSites[variant%len(crashSites)]
		nth := 1 + variant/len(crashSites)
		p.Ops = append([]Op{{K: "arm_crash", S: site, N: int64(nth)}}, ops...)
		p.Cfg.Extra["enumerated"] = 1
	default:
		p.Ops = ops
		rounds := fr.Range(1, 4)
		for k := 0; k < rounds; k++ {
			pos := fr.Intn(len(p.Ops) + 1)
			var f Op
			switch fr.Intn(7) {
			case 0:
				f = Op{K: "crash_now", Dt: PickOne(fr, insDts)}
			case 1, 2:
				ip := genPoint(fr, u, p.Tables, PointOpts{SpanNanos: span, Streams: streams, NoOdd: true}, pts, 500+k)
				f = Op{K: "crash_inflight", Dt: PickOne(fr, insDts), P: ip, N: int64(fr.Intn(4))}
			case 3:
				f = Op{K: "arm_ioerr", S: PickOne(fr, failSites), N: int64(fr.Range(1, 6))}
			case 4:
				f = Op{K: "restart_clean", Dt: int64(time.Millisecond)}
			default:
				f = Op{K: "arm_crash", S: PickOne(fr, crashSites), N: int64(fr.Range(1, 25))}
			}
			p.Ops = append(p.Ops[:pos], append([]Op{f}, p.Ops[pos:]...)...)
		}
	}
	if variant >= c02Variants-6 && !p.Cfg.VirtualTime {
		// long uptime: a table whose retention is shorter than the time the
		// process (and hence its WAL segment) has been up
		longUptime(fr, p, u)
	}
	return p
}

// longUptime rewrites the plan into: early points, flush, idle for longer
// than the retention period, late points, kill, restart.
func longUptime(r *Rng, p *Plan, u *Universe) {
	ret := int64(PickOne(r, []time.Duration{60 * time.Second, 3 * time.Minute}))
	for i := range p.Tables {
		p.Tables[i].RetNanos = ret / p.Tables[i].ResNanos * p.Tables[i].ResNanos
		if p.Tables[i].RetNanos < 3*p.Tables[i].ResNanos {
			p.Tables[i].RetNanos = 3 * p.Tables[i].ResNanos
			if p.Tables[i].RetNanos > ret {
				ret = p.Tables[i].RetNanos
			}
		}
		if p.Tables[i].View {
			// keep the view definition in step
			p.Tables[i].SQLOverride, p.Tables[i].MWhere = viewSQL(&p.Tables[i], p.table(p.Tables[i].ViewOf))
		}
	}
	streams := streamsOf(p.Tables)
	var ops []Op
	var pts []*Point
	elapsed := int64(0)
	add := func(o Op) { ops = append(ops, o); elapsed += o.Dt }
	// half of the time nothing is ever flushed before the kill (tables that
	// only flush when forced): the table has no persisted offset at all then
	neverFlushed := r.Bool(0.5)
	if neverFlushed {
		for i := range p.Tables {
			p.Tables[i].MinFlush, p.Tables[i].MaxFlush = int64(time.Hour), int64(1000*time.Hour)
		}
	} else {
		for i := 0; i < r.Range(1, 4); i++ {
			add(Op{K: "adv", Dt: int64(time.Second)})
			pt := genPoint(r, u, p.Tables, PointOpts{SpanNanos: int64(time.Second), Anchor: elapsed, Streams: streams, NoOdd: true}, pts, i)
			pts = append(pts, pt)
			add(Op{K: "ins", Dt: 1000, P: pt})
		}
		add(Op{K: "flush", Dt: int64(100 * time.Millisecond)})
	}
	idle := ret + ret/2 + int64(20*time.Second)
	for idle > 0 {
		add(Op{K: "adv", Dt: int64(30 * time.Second)})
		idle -= int64(30 * time.Second)
	}
	for i := 0; i < r.Range(1, 5); i++ {
		pt := genPoint(r, u, p.Tables, PointOpts{SpanNanos: int64(2 * time.Second), Anchor: elapsed, Streams: streams, NoOdd: true}, pts, 100+i)
		pts = append(pts, pt)
		add(Op{K: "ins", Dt: PickOne(r, []int64{1000, int64(70 * time.Millisecond)}), P: pt})
	}
	fate := r.Intn(3)
	if neverFlushed {
		fate = 0
	}
	switch fate {
	case 0:
		add(Op{K: "crash_now", Dt: PickOne(r, []int64{1000, int64(70 * time.Millisecond)})})
	case 1:
		add(Op{K: "restart_clean", Dt: int64(time.Millisecond)})
	default:
		add(Op{K: "arm_crash", S: "flush.renamed", N: 1})
		add(Op{K: "flush", Dt: int64(70 * time.Millisecond)})
	}
	p.Ops = ops
	p.Cfg.Extra["longUptime"] = 1
	p.Cfg.Extra["enumerated"] = 0
}

// walEntry renders the bytes the WAL holds for one point:
// length | crc32c | ts | dimsLen | dims | valsLen | vals.
func walEntry(pt *Point) []byte {
	dims := bytemap.New(kvMap(pt.Dims))
	vals := bytemap.New(kvMap(pt.Vals))
	payload := make([]byte, 0, 16+len(dims)+len(vals))
	b8 := make([]byte, 8)
	binary.BigEndian.PutUint64(b8, uint64(pt.Time().UnixNano()))
	payload = append(payload, b8...)
	b4 := make([]byte, 4)
	binary.BigEndian.PutUint32(b4, uint32(len(dims)))
	payload = append(payload, b4...)
	payload = append(payload, dims...)
	binary.BigEndian.PutUint32(b4, uint32(len(vals)))
	payload = append(payload, b4...)
	payload = append(payload, vals...)
	out := make([]byte, 8, 8+len(payload))
	binary.BigEndian.PutUint32(out, uint32(len(payload)))
	binary.BigEndian.PutUint32(out[4:], crc32.Checksum(payload, crc32.MakeTable(crc32.Castagnoli)))
	return append(out, payload...)
}

// appendTorn appends a prefix of the point's WAL entry to the newest segment
// of the image: what a kill in the middle of the write leaves behind.
func appendTorn(image string, pt *Point, class int) (int, error) {
	dir := filepath.Join(image, "_wal", pt.Stream)
	ents, err := os.ReadDir(dir)
	if err != nil {
		return 0, err
	}
	var names []string
	for _, en := range ents {
		if !en.IsDir() && !strings.HasSuffix(en.Name(), ".snappy") {
			names = append(names, en.Name())
		}
	}
	if len(names) == 0 {
		return 0, fmt.Errorf("no WAL segment in %s", dir)
	}
	sort.Strings(names)
	// Under the process-kill model a write(2) that was issued completes. The
	// WAL (sync on write) hands each entry to the kernel in pieces of at most
	// its 64 KiB buffer, so the only prefixes a kill can leave behind are
	// "nothing", "everything" (written, not yet acknowledged) and, for entries
	// larger than the buffer, multiples of 64 KiB.
	var n int
	if class >= 2 {
		big := *pt
		big.Vals = append(append([]KV(nil), pt.Vals...), KV{"blob", StrV(strings.Repeat("b", 70000))})
		pt = &big
	}
	entry := walEntry(pt)
	switch class {
	case 0:
		n = 0
	case 1:
		n = len(entry)
	case 2:
		n = 65536
	default:
		n = len(entry)
	}
	if n == 0 {
		return 0, nil
	}
	f, err := os.OpenFile(filepath.Join(dir, names[len(names)-1]), os.O_APPEND|os.O_WRONLY, 0644)
	if err != nil {
		return 0, err
	}
	defer f.Close()
	_, err = f.Write(entry[:n])
	return n, err
}

func execC02(e *Env, p *Plan) error {
	opts := func() *Cfg { c := p.Cfg; return &c }
	n, err := openStandalone(e, p, "n0")
	if err != nil {
		return err
	}
	var acked, inflight []*Point
	recoverIfCrashed := func() error {
		for tries := 0; n.Crashed; tries++ {
			if tries > 6 {
				return fmt.Errorf("node keeps crashing during recovery")
			}
			n, err = e.RestartFromImage(n, dbOpts(opts()), p.Tables)
			if err != nil {
				return &Violation{"restart-failed", fmt.Sprintf("restart on the crash image failed: %v", err)}
			}
			e.Sleep(0)
		}
		return nil
	}
	if err := recoverIfCrashed(); err != nil {
		return err
	}
	for i := range p.Ops {
		op := &p.Ops[i]
		stepDt(e, op)
		// a timer-driven flush during the sleep may have reached the crash point
		if err := recoverIfCrashed(); err != nil {
			return err
		}
		switch op.K {
		case "ins":
			if err := n.Insert(op.P); err != nil {
				return fmt.Errorf("insert: %v", err)
			}
			acked = append(acked, op.P)
			e.Count("op.ins")
		case "flush":
			n.DB.FlushAll()
			e.Count("op.flush")
		case "adv":
			e.Count("op.adv")
		case "arm_crash":
			e.mu.Lock()
			e.crash = &CrashArm{Node: "n0", Site: op.S, Nth: int(op.N)}
			e.mu.Unlock()
		case "arm_ioerr":
			e.mu.Lock()
			e.fail = &FailArm{Node: "n0", Site: op.S, Nth: int(op.N)}
			e.mu.Unlock()
		case "crash_now":
			e.crashNow(n, "quiescent")
		case "crash_inflight":
			e.crashNow(n, "inflight")
			nb, err := appendTorn(n.Image, op.P, int(op.N))
			if err != nil {
				return err
			}
			e.Count(fmt.Sprintf("fault.torn.class%d", op.N))
			e.Logf("torn %d bytes of point %d", nb, op.P.ID)
			inflight = append(inflight, op.P)
		case "restart_clean":
			n, err = e.RestartClean(n, dbOpts(opts()), p.Tables)
			if err != nil {
				return &Violation{"restart-failed", fmt.Sprintf("clean restart failed: %v", err)}
			}
		}
		e.Sleep(0)
		if err := recoverIfCrashed(); err != nil {
			return err
		}
	}
	// disarm, catch up
	e.mu.Lock()
	if e.crash != nil && e.crash.Fired {
		e.Counts["probe.crash-fired."+e.crash.Site]++
	}
	if e.crash != nil && !e.crash.Fired {
		e.Counts["probe.crash-armed-not-reached"]++
	}
	e.crash, e.fail = nil, nil
	e.mu.Unlock()
	for i := 0; i < 5; i++ {
		e.Sleep(60 * time.Millisecond)
	}
	if v := e.AsyncViolation(); v != nil {
		return v
	}
	// oracle: every table equals the model of acked points plus some subset
	// of the in-flight points
	nowAbs := time.Now().UnixNano()
	combos := 1 << uint(len(inflight))
	for _, stage := range []string{"recovered", "recovered+flushed"} {
		if stage == "recovered+flushed" {
			n.DB.FlushAll()
			e.Sleep(time.Millisecond)
		}
		for ti := range p.Tables {
			t := &p.Tables[ti]
			q := n.Query("SELECT * FROM "+t.Name, QOpts{IncludeMem: true})
			if q.Err != nil {
				return &Violation{"query-error", fmt.Sprintf("%s: SELECT * FROM %s: %v", stage, t.Name, q.Err)}
			}
			cutoff := int64(math.MinInt64)
			if p.Cfg.Extra["longUptime"] > 0 {
				cutoff = nowAbs - t.RetNanos + 10*int64(time.Second)
			}
			var firstV *Violation
			var allV []string
			matched := false
			for c := 0; c < combos && !matched; c++ {
				m := NewModel([]TableDef{*t})
				for _, pt := range acked {
					m.Offer(pt, math.MinInt64)
				}
				for k, pt := range inflight {
					if c&(1<<uint(k)) != 0 {
						m.Offer(pt, math.MinInt64)
					}
				}
				mt := m.Tables[t.Name]
				v := compareToModelCutoff(e, mt, q, stage, cutoff)
				if v == nil {
					matched = true
					if len(mt.Rows) > 0 {
						e.Count("nontrivial")
					}
					if c != 0 {
						e.Count("probe.inflight-applied")
					}
				} else {
					if firstV == nil {
						firstV = v
					}
					allV = append(allV, fmt.Sprintf("with in-flight subset %b: %s: %s", c, v.Sig, v.Detail))
				}
			}
			if !matched {
				firstV.Detail = fmt.Sprintf("after %d crash/restart round(s) [%s]: %s", e.Counts["fault.crash"]+e.Counts["fault.restart.clean"], faultSummary(e), strings.Join(allV, "\n  "))
				return firstV
			}
		}
	}
	n.Close()
	return nil
}

func faultSummary(e *Env) string {
	var parts []string
	for _, l := range e.LogLines() {
		if strings.HasPrefix(l, "crash ") || strings.HasPrefix(l, "torn ") {
			parts = append(parts, l)
		}
	}
	return strings.Join(parts, "; ")
}

// compareToModelCutoff is compareToModel restricted to periods newer than
// cutoff (absolute nanos).
func compareToModelCutoff(e *Env, mt *MTable, q *QResult, stage string, cutoff int64) *Violation {
	if cutoff == math.MinInt64 {
		return compareToModelEnv(e, mt, q, stage)
	}
	fq := *q
	fq.Rows = nil
	for _, r := range q.Rows {
		if r.TS >= cutoff {
			fq.Rows = append(fq.Rows, r)
		}
	}
	fm := &MTable{Def: mt.Def, Rows: map[string]*MRow{}}
	for id, r := range mt.Rows {
		if r.TS >= cutoff {
			fm.Rows[id] = r
		}
	}
	return compareToModelEnv(e, fm, &fq, stage)
}
