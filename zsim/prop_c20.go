package zsim

import (
	"bytes"
	"context"
	"fmt"
	"path/filepath"
	"time"

	"github.com/getlantern/zenodb/core"
)

func init() {
	register(&PropDef{ID: "C20", Gen: genC20, Exec: execC20})
}

func genC20(seed uint64, tier string) *Plan {
	r := NewRng(seed, 20)
	u := genUniverse(r)
	u.NoConst = true
	p := &Plan{Prop: "C20", Seed: seed, World: "CL+W"}
	p.Cfg.Partitions = PickOne(r, []int{1, 2, 3})
	p.Cfg.Leaders = 1
	p.Cfg.FollowersPerPart = 1
	p.Cfg.CoalesceNanos = int64(time.Millisecond)
	p.Cfg.Codec = true
	// the whole expression grammar: aggregates, AVG/WAVG, BOUNDED, IF, binary
	// arithmetic, PERCENTILE; queries add comparisons (HAVING), derived fields
	p.Tables = genSchema(r, u, SchemaOpts{MaxTables: 2, AllowRaw: true, NoShift: true, RetMin: time.Hour, RetMax: 4 * time.Hour, Partition: true})
	span := int64(PickOne(r, []time.Duration{10 * time.Second, time.Minute, 4 * time.Minute}))
	streams := streamsOf(p.Tables)
	p.Ops = append(p.Ops, Op{K: "adv", Dt: int64(37 * time.Second)})
	n := r.Range(3, 40)
	var pts []*Point
	for i := 0; i < n; i++ {
		pt := genPoint(r, u, p.Tables, PointOpts{SpanNanos: span, Streams: streams}, pts, i)
		pts = append(pts, pt)
		p.Ops = append(p.Ops, Op{K: "ins", Dt: PickOne(r, insDts), P: pt})
	}
	o := AllQ
	o.Limit = false
	o.Shift = false
	o.NoConst = true
	o.Crosstab = false
	o.DataSpan = span
	battery := genBattery(r, p, u, o, r.Range(3, 8))
	// fields that are constant arithmetic (the rest of the battery avoids
	// constant operands because of the recorded gap-row finding; a pure
	// constant next to _points cannot create rows of its own in a grouped
	// query that is compared between cluster and standalone)
	t0 := p.Tables[0].Name
	battery = append(battery, "SELECT 60 * 60 AS k0, _points FROM "+t0+" GROUP BY da", "SELECT _points, (2 + 3) * 4 AS k1 FROM "+t0+" GROUP BY _")
	// SHIFT with offsets of either sign (whole periods of the table)
	fn := fieldNames(&p.Tables[0])
	res0 := time.Duration(p.Tables[0].ResNanos)
	battery = append(battery,
		fmt.Sprintf("SELECT SHIFT(%s, '%s') AS s1, %s FROM %s GROUP BY da", PickOne(r, fn), durSQL(res0*time.Duration(r.Range(1, 3))), PickOne(r, fn), t0),
		fmt.Sprintf("SELECT SHIFT(%s, '-%s') AS s2, _points FROM %s GROUP BY _", PickOne(r, fn), durSQL(res0*time.Duration(r.Range(1, 3))), t0))
	p.Ops = append(p.Ops, Op{K: "check", Strs: battery})
	return p
}

func execC20(e *Env, p *Plan) error {
	c, err := NewCluster(e, p)
	if err != nil {
		return err
	}
	c.CheckCodec = true
	dcfg := p.Cfg
	d, err := e.OpenNode("D", filepath.Join(e.Root, "D"), dbOpts(&dcfg), p.Tables)
	if err != nil {
		return err
	}
	// R: a standalone node behind the real RPC server, fed through the real
	// RPC client over in-memory pipes
	rn, err := e.OpenNode("R", filepath.Join(e.Root, "R"), dbOpts(&dcfg), p.Tables)
	if err != nil {
		return err
	}
	pn := NewPipeNet()
	stop := pn.ServeRPC(rn.DB, "r:17712", 0, "")
	defer stop()
	client, err := pn.DialRPC("r:17712", "")
	if err != nil {
		return fmt.Errorf("dial: %v", err)
	}
	defer client.Close()
	inserters := map[string]interface {
		Insert(ts time.Time, dims map[string]interface{}, vals func(func(string, interface{}))) error
	}{}
	for i := range p.Ops {
		op := &p.Ops[i]
		stepDt(e, op)
		switch op.K {
		case "ins":
			if err := c.Leaders[0].N.Insert(op.P); err != nil {
				return err
			}
			if err := d.Insert(op.P); err != nil {
				return err
			}
			ins := inserters[op.P.Stream]
			if ins == nil {
				ni, err := client.NewInserter(context.Background(), op.P.Stream)
				if err != nil {
					return fmt.Errorf("new inserter: %v", err)
				}
				inserters[op.P.Stream] = ni
				ins = ni
			}
			pt := op.P
			if err := ins.Insert(pt.Time(), kvMap(pt.Dims), func(cb func(string, interface{})) {
				// the inserter wants the values in sorted key order
				kvs := append([]KV(nil), pt.Vals...)
				sortKVs(kvs)
				for _, kv := range kvs {
					cb(kv.N, kv.V.Go())
				}
			}); err != nil {
				return &Violation{"rpc-insert-failed", fmt.Sprintf("inserting point %d over RPC: %v", pt.ID, err)}
			}
			e.Count("op.ins")
		case "check":
			clusterSettle(e, c)
			if v := e.AsyncViolation(); v != nil {
				return v
			}
			if v := checkRouting(e, c, d, p); v != nil {
				return v
			}
			if v := compareClusterQueries(e, c, d, op.Strs, "codec-cluster-differs"); v != nil {
				return v
			}
			if v := e.AsyncViolation(); v != nil {
				return v
			}
			// RPC client vs embedded
			for _, sql := range op.Strs {
				pd := d.Prepare(sql, true)
				md, iterate, qerr := client.Query(context.Background(), sql, true)
				qd := pd.Run(QOpts{})
				if qd.Panicked {
					e.Count("q.panic")
					continue
				}
				if (qerr != nil) != (qd.Err != nil) {
					return &Violation{"rpc-query-error-mismatch", fmt.Sprintf("%q over RPC: %v; embedded: %v", sql, qerr, qd.Err)}
				}
				if qerr != nil {
					e.Count("q.error")
					continue
				}
				qr := &QResult{SQL: sql, Fields: md.FieldNames}
				_, ierr := iterate(func(row *core.FlatRow) (bool, error) {
					kvs := keyKVs(row.Key.AsMap())
					qr.Rows = append(qr.Rows, QRow{TS: row.TS, KeyKVs: kvs, Key: CanonKey(kvs), Vals: append([]float64(nil), row.Values...)})
					return true, nil
				})
				if ierr != nil {
					return &Violation{"rpc-query-failed", fmt.Sprintf("%q over RPC failed while iterating: %v", sql, ierr)}
				}
				e.Logf("rpcq %q rpc=%d embedded=%d", sql, len(qr.Rows), len(qd.Rows))
				if ok, diff := sameRows(qd, qr); !ok {
					return &Violation{"rpc-query-differs", fmt.Sprintf("%q answered through the RPC client/server (points inserted through the RPC inserter) differs from the embedded API: %s", sql, diff)}
				}
				if md.AsOf.UnixNano() != qd.AsOf || md.Until.UnixNano() != qd.Until || int64(md.Resolution) != qd.Res {
					return &Violation{"rpc-metadata-differs", fmt.Sprintf("%q: metadata over RPC (%v, %v, %v) differs from the embedded source (%v, %v, %v)", sql, md.AsOf, md.Until, md.Resolution, time.Unix(0, qd.AsOf), time.Unix(0, qd.Until), time.Duration(qd.Res))}
				}
				e.Count("probe.rpc-query-compared")
			}
		}
		e.Sleep(0)
	}
	c.CloseAll()
	d.Abandon()
	rn.Abandon()
	return nil
}

func sortKVs(kvs []KV) {
	for i := 1; i < len(kvs); i++ {
		for j := i; j > 0 && kvs[j].N < kvs[j-1].N; j-- {
			kvs[j], kvs[j-1] = kvs[j-1], kvs[j]
		}
	}
}

// codec round-trip laws checked on every message that crosses a link
func (c *Cluster) checkFields(in, out core.Fields) {
	if !c.CheckCodec {
		return
	}
	if !in.Equals(out) {
		c.e.setAsync(&Violation{"codec-fields-differ", fmt.Sprintf("field list decoded from the RPC codec differs: sent %v, received %v", in, out)})
		return
	}
	// an expression must also keep the layout of its stored values and its
	// being constant (which decides how values are read from a series)
	for i := range in {
		if in[i].Expr.IsConstant() != out[i].Expr.IsConstant() {
			c.e.setAsync(&Violation{"codec-field-constness-differs", fmt.Sprintf("field %v decoded from the RPC codec reports IsConstant=%v, the original %v", in[i], out[i].Expr.IsConstant(), in[i].Expr.IsConstant())})
			return
		}
		if in[i].Expr.EncodedWidth() != out[i].Expr.EncodedWidth() {
			c.e.setAsync(&Violation{"codec-field-width-differs", fmt.Sprintf("field %v decoded from the RPC codec has encoded width %d, the original %d", in[i], out[i].Expr.EncodedWidth(), in[i].Expr.EncodedWidth())})
			return
		}
	}
}

func (c *Cluster) checkBytes(what string, in, out []byte) {
	if !c.CheckCodec {
		return
	}
	if !bytes.Equal(in, out) {
		c.e.setAsync(&Violation{"codec-bytes-differ", fmt.Sprintf("%s decoded from the RPC codec differs: sent %x, received %x", what, in, out)})
	}
}
