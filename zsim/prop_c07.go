package zsim

import (
	"fmt"
	"strings"
	"time"
)

func init() {
	register(&PropDef{ID: "C07", Gen: genC07, Exec: execC07})
}

func genC07(seed uint64, tier string) *Plan {
	r := NewRng(seed, 7)
	u := genUniverse(r)
	p := &Plan{Prop: "C07", Seed: seed, World: "S"}
	p.Cfg.CoalesceNanos = int64(time.Millisecond)
	ret := PickOne(r, []time.Duration{30 * time.Second, 2 * time.Minute, 10 * time.Minute})
	span := int64(ret) * 3 / 4
	if span > int64(5*time.Minute) {
		span = int64(5 * time.Minute)
	}
	genDataset(r, p, u, SchemaOpts{MaxTables: 2, AllowRaw: true, Resolutions: []time.Duration{time.Second, 2 * time.Second, 5 * time.Second}, RetMin: ret, RetMax: ret}, 3, 50, span, 0.08, 0.05)
	nq := r.Range(2, 8)
	for i := 0; i < nq; i++ {
		t := &p.Tables[r.Intn(len(p.Tables))]
		if r.Bool(0.3) {
			// let part of the data expire
			p.Ops = append(p.Ops, Op{K: "adv", Dt: PickOne(r, []int64{t.ResNanos, int64(ret) / 4, int64(ret) / 2, int64(ret)})})
		}
		gq := genGroupedQuery(r, t, u)
		gq.K = "wq"
		if r.Bool(0.6) {
			gq.N = 0 // native resolution: comparable with the unbounded query row by row
		}
		gq.Sub = []Op{{K: "align", N: PickOne(r, []int64{0, 1, -1, int64(time.Millisecond), t.ResNanos / 2, r.Int64N(t.ResNanos)}), N2: t.ResNanos}}
		// window: offsets relative to "now" (negative = past), 1 = not given
		w := Op{K: "window"}
		res := t.ResNanos
		a := -r.Int64N(int64(ret) + int64(ret)/8 + 1)
		switch r.Intn(4) {
		case 0:
			a = a / res * res
		case 1:
			a = a/res*res + 1
		}
		w.N = a
		w.N2 = 1
		if r.Bool(0.7) {
			b := a + r.Int64N(-a+int64(30*time.Second)+1)
			switch r.Intn(3) {
			case 0:
				b = b / res * res
			}
			w.N2 = b
		}
		w.B = r.Bool(0.5) // absolute (RFC3339, whole seconds) or relative
		if r.Bool(0.2) {
			w.S = "none"
		}
		gq.Sub = append(gq.Sub, w)
		p.Ops = append(p.Ops, gq)
	}
	return p
}

func floorTo(ts, res int64) int64 {
	q := ts / res
	if q*res > ts {
		q--
	}
	return q * res
}

func execC07(e *Env, p *Plan) error {
	n, err := openStandalone(e, p, "n0")
	if err != nil {
		return err
	}
	m := NewModel(p.Tables)
	for i := range p.Ops {
		op := &p.Ops[i]
		stepDt(e, op)
		switch op.K {
		case "ins":
			if err := n.Insert(op.P); err != nil {
				return err
			}
			m.Offer(op.P, minInt64)
		case "flush":
			n.DB.FlushAll()
		case "adv":
			e.Count("fault.clockjump")
		case "wq":
			e.Settle()
			alignClock(e, op.Sub[0].N, op.Sub[0].N2)
			mt := m.Tables[op.S]
			t := mt.Def
			w := &op.Sub[1]
			now := time.Now().UnixNano()
			tableUntil := CeilTo(now, t.ResNanos)
			tableAsOf := CeilTo(tableUntil-t.RetNanos, t.ResNanos)
			rangeSQL := ""
			wantAsOf, wantUntil := tableAsOf, tableUntil
			if w.S != "none" {
				// whole seconds so that absolute and relative forms agree
				a := floorTo(now+w.N, int64(time.Second))
				if w.B {
					rangeSQL = " ASOF '" + time.Unix(0, a).UTC().Format(time.RFC3339) + "'"
				} else {
					// relative offsets are applied to the clock itself (an offset
					// of zero means "not given")
					if floorTo(w.N, int64(time.Second)) == 0 {
						w.N = -int64(time.Second)
					}
					a = now + floorTo(w.N, int64(time.Second))
					rangeSQL = " ASOF '" + relTime(time.Duration(floorTo(w.N, int64(time.Second)))) + "'"
				}
				wantAsOf = CeilTo(a, t.ResNanos)
				if w.N2 != 1 {
					b := floorTo(now+w.N2, int64(time.Second))
					if w.B {
						rangeSQL += " UNTIL '" + time.Unix(0, b).UTC().Format(time.RFC3339) + "'"
					} else if floorTo(w.N2, int64(time.Second)) != 0 {
						b = now + floorTo(w.N2, int64(time.Second))
						rangeSQL += " UNTIL '" + relTime(time.Duration(floorTo(w.N2, int64(time.Second)))) + "'"
					} else {
						b = tableUntil
					}
					if b != tableUntil {
						wantUntil = CeilTo(b, t.ResNanos)
					}
				}
			}
			bounded := groupedSQL(op, t, rangeSQL)
			unbounded := groupedSQL(op, t, "")
			dump := "SELECT * FROM " + t.Name
			pb, pu, pd := n.Prepare(bounded, true), n.Prepare(unbounded, true), n.Prepare(dump, true)
			qb, qu, qd := pb.Run(QOpts{}), pu.Run(QOpts{}), pd.Run(QOpts{})
			for _, q := range []*QResult{qb, qu, qd} {
				if q.Panicked {
					return &Violation{"panic-in-query", fmt.Sprintf("%q: %v", q.SQL, q.Err)}
				}
			}
			e.Logf("wq %q rows=%d err=%v", bounded, len(qb.Rows), qb.Err != nil)
			// the unranged dump: window is (now - retention, now]
			if qd.Err == nil {
				for k := range qd.Rows {
					r := &qd.Rows[k]
					if r.TS <= qd.AsOf || r.TS-t.ResNanos >= qd.Until {
						if e.Known("C07-unranged-query-ignores-window") {
							break
						}
						return &Violation{"unranged-outside-window", fmt.Sprintf("%q reports the window (%v, %v] but returned period %v of key [%s]", dump, time.Duration(qd.AsOf-BaseNanos), time.Duration(qd.Until-BaseNanos), time.Duration(r.TS-BaseNanos), r.Key)}
					}
				}
			}
			if qu.Err != nil {
				e.Count("q.error")
				break
			}
			if qb.Err != nil {
				// documented: a query reaching back before the table's asOf is refused
				if wantAsOf < tableAsOf && strings.Contains(qb.Err.Error(), "is before table asOf") {
					e.Count("q.refused-asof-before-table")
					break
				}
				if wantUntil <= wantAsOf {
					e.Count("q.error-empty-window")
					break
				}
				return &Violation{"query-error", fmt.Sprintf("%q failed: %v (the same query without a range succeeds)", bounded, qb.Err)}
			}
			if wantAsOf < tableAsOf {
				return &Violation{"asof-before-table-accepted", fmt.Sprintf("%q reaches back to %v, before the table's asOf %v, and was not refused", bounded, time.Duration(wantAsOf-BaseNanos), time.Duration(tableAsOf-BaseNanos))}
			}
			if wantUntil-wantAsOf >= qb.Res && (qb.AsOf != wantAsOf || qb.Until != wantUntil) {
				return &Violation{"window-mismatch", fmt.Sprintf("%q at now=%v reports the window (%v, %v]; the requested range rounded up to the resolution is (%v, %v]", bounded, time.Duration(now-BaseNanos), time.Duration(qb.AsOf-BaseNanos), time.Duration(qb.Until-BaseNanos), time.Duration(wantAsOf-BaseNanos), time.Duration(wantUntil-BaseNanos))}
			}
			// R: rows are exactly the buckets of the reported window
			if v := checkGrouped(e, mt, qb, op.Strs, strings.Split(op.S2, ","), bounded); v != nil {
				return v
			}
			// M: at native resolution the bounded result is the unbounded one
			// restricted to periods wholly inside the window
			if qb.Res == t.ResNanos && qu.Res == t.ResNanos && !tableHasConstBin(t) {
				inside := &QResult{SQL: unbounded, Fields: qu.Fields}
				for _, r := range qu.Rows {
					if r.TS-t.ResNanos >= qb.AsOf && r.TS <= qb.Until {
						inside.Rows = append(inside.Rows, r)
					}
				}
				if ok, diff := sameRows(inside, qb); !ok {
					return &Violation{"bounded-differs-from-unbounded", fmt.Sprintf("%q (window (%v, %v]) differs from the rows of %q inside that window: %s", bounded, time.Duration(qb.AsOf-BaseNanos), time.Duration(qb.Until-BaseNanos), unbounded, diff)}
				}
				if len(inside.Rows) > 0 {
					e.Count("probe.m-nonempty")
				}
			}
		}
		e.Sleep(0)
	}
	n.Close()
	return nil
}
