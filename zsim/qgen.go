package zsim

import (
	"fmt"
	"sort"
	"strings"
	"time"
)

// OrderKey is one ORDER BY key.
type OrderKey struct {
	Field string `json:"field"`
	Desc  bool   `json:"desc,omitempty"`
}

// QSpec is a generated query in structured form.
type QSpec struct {
	Table    string     `json:"table"`
	Sel      []string   `json:"sel"`
	Where    *Pred      `json:"where,omitempty"`
	WhereRaw string     `json:"whereRaw,omitempty"`
	AsOf     string     `json:"asOf,omitempty"`
	Until    string     `json:"until,omitempty"`
	GroupBy  []string   `json:"groupBy,omitempty"`
	Having   string     `json:"having,omitempty"`
	Order    []OrderKey `json:"order,omitempty"`
	Limit    int        `json:"limit,omitempty"`  // 0 = none
	Offset   int        `json:"offset,omitempty"` // 0 = none
	FromSub  *QSpec     `json:"fromSub,omitempty"`
}

func (q *QSpec) SQL() string {
	var sb strings.Builder
	sb.WriteString("SELECT ")
	if len(q.Sel) == 0 {
		sb.WriteString("*")
	} else {
		sb.WriteString(strings.Join(q.Sel, ", "))
	}
	sb.WriteString(" FROM ")
	if q.FromSub != nil {
		sb.WriteString("(" + q.FromSub.SQL() + ")")
	} else {
		sb.WriteString(q.Table)
	}
	if q.AsOf != "" {
		sb.WriteString(" ASOF '" + q.AsOf + "'")
		if q.Until != "" {
			sb.WriteString(" UNTIL '" + q.Until + "'")
		}
	}
	if q.Where != nil {
		sb.WriteString(" WHERE " + q.Where.SQL())
	} else if q.WhereRaw != "" {
		sb.WriteString(" WHERE " + q.WhereRaw)
	}
	if len(q.GroupBy) > 0 {
		sb.WriteString(" GROUP BY " + strings.Join(q.GroupBy, ", "))
	}
	if q.Having != "" {
		sb.WriteString(" HAVING " + q.Having)
	}
	if len(q.Order) > 0 {
		sb.WriteString(" ORDER BY ")
		for i, o := range q.Order {
			if i > 0 {
				sb.WriteString(", ")
			}
			sb.WriteString(o.Field)
			if o.Desc {
				sb.WriteString(" DESC")
			}
		}
	}
	if q.Limit > 0 {
		// the dialect writes LIMIT <offset>, <rowcount>
		if q.Offset > 0 {
			sb.WriteString(fmt.Sprintf(" LIMIT %d, %d", q.Offset, q.Limit))
		} else {
			sb.WriteString(fmt.Sprintf(" LIMIT %d", q.Limit))
		}
	}
	return sb.String()
}

// QGenOpts selects which clauses the generator may use.
type QGenOpts struct {
	Window   bool // ASOF/UNTIL
	Group    bool
	Having   bool
	Order    bool
	Limit    bool
	Crosstab bool
	Sub      bool
	Shift    bool
	Where    bool
	NoPeriod bool // no period()/stride() (results must not depend on the clock)
	// InSubTables: tables that IN (SELECT ...) predicates may read (none = no
	// IN-subqueries)
	InSubTables []TableDef
	NoConst     bool // no derived fields with constant operands (finding C01-gap-row-const)
	// LimitTotal: LIMIT/OFFSET only below an ORDER BY over all dimensions and
	// _time - a total order of the result rows, so the slice is determined and
	// two systems can be compared on it
	LimitTotal bool
	// PctOverFields: query-time PERCENTILE whose value argument is built from
	// table fields (planning de-aggregates that argument)
	PctOverFields bool
	// DataSpan is how far back (ns, positive) the data reaches from Base, for
	// window generation.
	DataSpan int64
}

var AllQ = QGenOpts{Window: true, Group: true, Having: true, Order: true, Limit: true, Crosstab: true, Sub: true, Shift: true, Where: true}

func relTime(d time.Duration) string {
	// relative offsets are negative durations such as -90s
	neg := d < 0
	if neg {
		d = -d
	}
	var s string
	if secs := int64(d / time.Second); d%time.Second == 0 && secs >= 75 && secs%15 == 0 && secs%60 != 0 {
		// a fractional spelling of the same duration: 90s = 1.5m, 105s = 1.75m
		s = fmt.Sprintf("%d.%sm", secs/60, map[int64]string{15: "25", 30: "5", 45: "75"}[secs%60])
	} else if d%time.Second == 0 {
		s = fmt.Sprintf("%ds", int64(d/time.Second))
	} else {
		s = fmt.Sprintf("%dms", int64(d/time.Millisecond))
	}
	if neg {
		s = "-" + s
	}
	return s
}

func absTime(offsetFromBase int64) string {
	return time.Unix(0, BaseNanos+offsetFromBase).UTC().Format(time.RFC3339)
}

func fieldNames(t *TableDef) []string {
	var out []string
	for _, f := range t.Fields {
		out = append(out, f.Name)
	}
	return out
}

func genSelect(r *Rng, t *TableDef, u *Universe, o QGenOpts) []string {
	names := fieldNames(t)
	switch r.Intn(6) {
	case 0:
		return nil // *
	case 1:
		return []string{"*", "_points"}
	}
	var sel []string
	seen := map[string]bool{}
	n := r.Range(1, 3)
	for i := 0; i < n; i++ {
		f := PickOne(r, names)
		if !seen[f] {
			seen[f] = true
			sel = append(sel, f)
		}
	}
	if r.Bool(0.3) {
		sel = append(sel, "_points")
	}
	if r.Bool(0.35) {
		a, b := PickOne(r, names), PickOne(r, names)
		sel = append(sel, fmt.Sprintf("%s %s %s AS g0", a, PickOne(r, []string{"+", "-", "*", "/"}), b))
	}
	if r.Bool(0.2) {
		sel = append(sel, fmt.Sprintf("IF(%s, %s) AS g1", genPred(r, u, 0).SQL(), PickOne(r, names)))
	}
	if o.Shift && r.Bool(0.12) {
		sign := "-"
		if r.Bool(0.3) {
			sign = "" // a positive offset: values move into the past
		}
		sel = append(sel, fmt.Sprintf("SHIFT(%s, '%s%s') AS g2", PickOne(r, names), sign, durSQL(time.Duration(t.ResNanos)*time.Duration(r.Range(1, 3)))))
	}
	if r.Bool(0.1) && !o.NoConst {
		sel = append(sel, fmt.Sprintf("%s * 2 AS g3", PickOne(r, names)))
	}
	if o.PctOverFields && r.Bool(0.25) {
		arg := PickOne(r, []string{"%s * 100", "%s + %s", "IF(dc = TRUE, %s)", "SHIFT(%s, '-1s')", "%s"})
		if strings.Count(arg, "%s") == 2 {
			arg = fmt.Sprintf(arg, PickOne(r, names), PickOne(r, names))
		} else {
			arg = fmt.Sprintf(arg, PickOne(r, names))
		}
		sel = append(sel, fmt.Sprintf("PERCENTILE(%s, %d, 0, 100000, 1) AS g4", arg, PickOne(r, []int{50, 99})))
	}
	return sel
}

func selNames(sel []string, t *TableDef) []string {
	if len(sel) == 0 {
		return append([]string{"_points"}, fieldNames(t)...)
	}
	var out []string
	for _, s := range sel {
		if s == "*" {
			out = append(out, "_points")
			out = append(out, fieldNames(t)...)
			continue
		}
		if i := strings.LastIndex(s, " AS "); i >= 0 {
			out = append(out, s[i+4:])
		} else {
			out = append(out, s)
		}
	}
	return out
}

func dimNames(u *Universe) []string {
	var out []string
	for _, d := range u.Dims {
		out = append(out, d.Name)
	}
	return out
}

// genQuery generates a query over table t.
func genQuery(r *Rng, t *TableDef, u *Universe, o QGenOpts) *QSpec {
	q := &QSpec{Table: t.Name}
	q.Sel = genSelect(r, t, u, o)
	if o.Where && r.Bool(0.35) {
		q.Where = genPred(r, u, 1)
	}
	if len(o.InSubTables) > 0 && r.Bool(0.25) {
		// one or two IN-subqueries (over other tables too), optionally next to
		// an ordinary predicate
		var parts []string
		for i, n := 0, r.Range(1, 2); i < n; i++ {
			t2 := &o.InSubTables[r.Intn(len(o.InSubTables))]
			dim := PickOne(r, []string{"da", "db"})
			sub := fmt.Sprintf("SELECT %s FROM %s", dim, t2.Name)
			if r.Bool(0.5) {
				sub += " WHERE " + genPred(r, u, 1).SQL()
			}
			sub += " GROUP BY " + dim
			if r.Bool(0.4) {
				sub += fmt.Sprintf(" HAVING _points %s %d", PickOne(r, []string{">", ">="}), r.Range(1, 3))
			} else if r.Bool(0.35) {
				// "first n values": ordered by the grouped dimension itself, so
				// the slice is determined
				sub += fmt.Sprintf(" ORDER BY %s%s LIMIT %d", dim, PickOne(r, []string{"", " DESC"}), r.Range(1, 3))
			}
			parts = append(parts, fmt.Sprintf("%s IN (%s)", dim, sub))
		}
		if q.Where != nil {
			parts = append(parts, "("+q.Where.SQL()+")")
			q.Where = nil
		}
		q.WhereRaw = strings.Join(parts, PickOne(r, []string{" AND ", " AND ", " OR "}))
	}
	res := time.Duration(t.ResNanos)
	if o.Window && r.Bool(0.45) {
		span := o.DataSpan
		if span <= 0 {
			span = int64(5 * time.Minute)
		}
		// asOf somewhere in/around the data, until after it
		a := -r.Int64N(span + span/4 + 1)
		if r.Bool(0.5) {
			a = a / int64(res) * int64(res)
		}
		if r.Bool(0.5) {
			q.AsOf = absTime(a / int64(time.Second) * int64(time.Second))
		} else {
			q.AsOf = relTime(time.Duration(a) / time.Second * time.Second)
		}
		if r.Bool(0.7) {
			b := a + r.Int64N(span+1)
			if r.Bool(0.5) {
				b = b / int64(res) * int64(res)
			}
			if b > 0 && r.Bool(0.7) {
				b = 0
			}
			if r.Bool(0.5) {
				q.Until = absTime(b / int64(time.Second) * int64(time.Second))
			} else if b < 0 {
				q.Until = relTime(time.Duration(b) / time.Second * time.Second)
			}
		}
	}
	if o.Group && r.Bool(0.6) {
		switch r.Intn(5) {
		case 0:
			q.GroupBy = []string{"_"}
		case 1:
			q.GroupBy = []string{"*"}
		default:
			for _, d := range dimNames(u) {
				if r.Bool(0.45) {
					q.GroupBy = append(q.GroupBy, d)
				}
			}
			if len(q.GroupBy) == 0 {
				q.GroupBy = []string{"_"}
			}
		}
		if r.Bool(0.1) && q.GroupBy[0] != "*" && q.GroupBy[0] != "_" {
			q.GroupBy = append(q.GroupBy, "CONCAT('|', da, db) AS dx")
		}
		if r.Bool(0.5) && !o.NoPeriod {
			k := PickOne(r, []int{1, 2, 3, 5, 7, 30, 600})
			q.GroupBy = append(q.GroupBy, "period("+durSQL(res*time.Duration(k))+")")
		}
		if o.Crosstab && r.Bool(0.12) {
			q.GroupBy = append(q.GroupBy, PickOne(r, []string{"CROSSTAB(da)", "CROSSTABT(da)", "CROSSTAB(da, db)"}))
		}
		if r.Bool(0.06) && !o.NoPeriod {
			sk := PickOne(r, []int{2, 4})
			if r.Bool(0.5) {
				// the period that equals the stride keeps every stride whole
				for gi, g := range q.GroupBy {
					if strings.HasPrefix(g, "period(") {
						q.GroupBy[gi] = "period(" + durSQL(res*time.Duration(sk)) + ")"
					}
				}
			}
			q.GroupBy = append(q.GroupBy, "stride("+durSQL(res*time.Duration(sk))+")")
		}
	}
	names := selNames(q.Sel, t)
	if o.Having && r.Bool(0.25) {
		f := PickOne(r, names)
		if r.Bool(0.3) {
			f = PickOne(r, fieldNames(t)) // possibly unselected
		}
		if o.NoConst {
			// only predicates that are false for "no value" (0): a comparison
			// with a constant reports a value for empty periods
			q.Having = fmt.Sprintf("%s %s %d", f, PickOne(r, []string{">", ">="}), r.Range(1, 12))
		} else {
			q.Having = fmt.Sprintf("%s %s %d", f, PickOne(r, []string{">", "<", ">=", "<>", "="}), r.Range(0, 12))
		}
	}
	if o.Order && r.Bool(0.4) {
		cands := append(append([]string{"_time"}, names...), dimNames(u)...)
		n := r.Range(1, 4)
		seen := map[string]bool{}
		for i := 0; i < n; i++ {
			k := PickOne(r, cands)
			if seen[k] {
				continue
			}
			seen[k] = true
			q.Order = append(q.Order, OrderKey{k, r.Bool(0.4)})
		}
	}
	if o.Limit && r.Bool(0.3) {
		q.Limit = r.Range(1, 12)
		if r.Bool(0.4) {
			q.Offset = r.Range(1, 8)
		}
	}
	computedKey := false
	for _, g := range q.GroupBy {
		if strings.Contains(g, " AS ") {
			computedKey = true // (its output name is not a dimension of the universe)
		}
	}
	if o.LimitTotal && !o.Limit && !computedKey && r.Bool(0.2) {
		keys := append([]string{"_time"}, dimNames(u)...)
		for i := len(keys) - 1; i > 0; i-- {
			j := r.Intn(i + 1)
			keys[i], keys[j] = keys[j], keys[i]
		}
		q.Order = nil
		for _, k := range keys {
			q.Order = append(q.Order, OrderKey{k, r.Bool(0.4)})
		}
		q.Limit = r.Range(1, 6)
		if r.Bool(0.6) {
			q.Offset = r.Range(1, 4)
		}
	}
	if o.Sub && r.Bool(0.15) {
		// wrap: outer query over the inner result (one or two levels); the
		// outer GROUP BY may keep a plain dim, nothing, everything, or only a
		// computed dim
		inner := q
		inner.Order, inner.Limit, inner.Offset = nil, 0, 0
		in := selNames(inner.Sel, t)
		wrap := func(in *QSpec, names []string) *QSpec {
			outer := &QSpec{FromSub: in}
			outer.Sel = []string{PickOne(r, names)}
			if r.Bool(0.6) {
				d := PickOne(r, dimNames(u))
				outer.GroupBy = []string{PickOne(r, []string{"_", "*", d, d, fmt.Sprintf("CONCAT('_', %s, 'k') AS %sk", d, d), "SUBSTR(da, 0, 1) AS das"})}
				if g := outer.GroupBy[0]; g != "_" && g != "*" && r.Bool(0.4) {
					// a second key: a plain dimension next to a computed one
					if d2 := PickOne(r, dimNames(u)); d2 != d && !strings.Contains(g, d2) {
						outer.GroupBy = append(outer.GroupBy, d2)
					}
				}
			}
			return outer
		}
		outer := wrap(inner, in)
		if r.Bool(0.3) {
			outer = wrap(outer, outer.Sel)
		}
		return outer
	}
	return q
}

// sameRows compares two results as multisets of (TS, key, values).
func sameRows(a, b *QResult) (bool, string) {
	if (a.Err != nil) != (b.Err != nil) {
		return false, fmt.Sprintf("error mismatch: %v vs %v", a.Err, b.Err)
	}
	if a.Err != nil {
		return true, ""
	}
	if strings.Join(a.Fields, ",") != strings.Join(b.Fields, ",") {
		return false, fmt.Sprintf("fields differ: %v vs %v", a.Fields, b.Fields)
	}
	if len(a.Rows) != len(b.Rows) {
		return false, fmt.Sprintf("row count %d vs %d\n first: %s\n second: %s", len(a.Rows), len(b.Rows), strings.Join(firstN(a.Canon(), 30), "\n        "), strings.Join(firstN(b.Canon(), 30), "\n         "))
	}
	ia, ib := sortedIdx(a), sortedIdx(b)
	for k := range ia {
		ra, rb := &a.Rows[ia[k]], &b.Rows[ib[k]]
		if ra.TS != rb.TS || ra.Key != rb.Key || len(ra.Vals) != len(rb.Vals) {
			return false, fmt.Sprintf("row %d differs: %s vs %s\n first: %s\n second: %s", k, rowLine(a.Fields, ra), rowLine(b.Fields, rb), strings.Join(firstN(a.Canon(), 12), "\n        "), strings.Join(firstN(b.Canon(), 12), "\n         "))
		}
		for i := range ra.Vals {
			if !floatClose(ra.Vals[i], rb.Vals[i]) {
				return false, fmt.Sprintf("row differs in %s: %s vs %s", a.Fields[i], rowLine(a.Fields, ra), rowLine(b.Fields, rb))
			}
		}
	}
	return true, ""
}

func firstN(s []string, n int) []string {
	if len(s) > n {
		return append(s[:n:n], "...")
	}
	return s
}

func sortedIdx(q *QResult) []int {
	idx := make([]int, len(q.Rows))
	for i := range idx {
		idx[i] = i
	}
	lines := make([]string, len(q.Rows))
	for i := range q.Rows {
		lines[i] = rowLine(q.Fields, &q.Rows[i])
	}
	sortStable(idx, func(i, j int) bool {
		ri, rj := &q.Rows[i], &q.Rows[j]
		if ri.TS != rj.TS {
			return ri.TS < rj.TS
		}
		if ri.Key != rj.Key {
			return ri.Key < rj.Key
		}
		return lines[i] < lines[j]
	})
	return idx
}

func sortStable(idx []int, less func(i, j int) bool) {
	sort.SliceStable(idx, func(a, b int) bool { return less(idx[a], idx[b]) })
}
