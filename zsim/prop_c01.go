package zsim

import (
	"fmt"
	"math"
	"path/filepath"
	"sort"
	"time"
)

func init() {
	register(&PropDef{ID: "C01", Gen: genC01, Exec: execC01})
}

func maxRes(ts []TableDef) int64 {
	var m int64
	for _, t := range ts {
		if t.ResNanos > m {
			m = t.ResNanos
		}
	}
	return m
}

func streamsOf(ts []TableDef) []string {
	seen := map[string]bool{}
	var out []string
	for _, t := range ts {
		if !seen[t.Stream] {
			seen[t.Stream] = true
			out = append(out, t.Stream)
		}
	}
	sort.Strings(out)
	return out
}

var insDts = []int64{int64(time.Microsecond), int64(time.Microsecond), int64(time.Millisecond), int64(30 * time.Millisecond), int64(70 * time.Millisecond), int64(time.Second)}
var advDts = []int64{int64(10 * time.Millisecond), int64(60 * time.Millisecond), int64(600 * time.Millisecond), int64(6 * time.Second), int64(45 * time.Second), int64(2 * time.Minute)}

func genC01(seed uint64, tier string) *Plan {
	r := NewRng(seed, 1)
	u := genUniverse(r)
	u.EmptyDims = 0.04
	p := &Plan{Prop: "C01", Seed: seed, World: "S"}
	p.Cfg.VirtualTime = r.Bool(0.5)
	p.Cfg.CoalesceNanos = int64(time.Millisecond)
	p.Tables = genSchema(r, u, SchemaOpts{MaxTables: 3, AllowView: true, Streams: 2, RetMin: 30 * time.Minute, RetMax: 6 * time.Hour})
	span := int64(5 * time.Minute)
	if r.Bool(0.5) {
		span = int64(20 * time.Second)
	}
	n := r.Range(3, 60)
	if tier == "thorough" && r.Bool(0.2) {
		n = r.Range(60, 150)
	}
	var pts []*Point
	streams := streamsOf(p.Tables)
	for i := 0; i < n; i++ {
		pt := genPoint(r, u, p.Tables, PointOpts{SpanNanos: span, Streams: streams}, pts, i)
		pts = append(pts, pt)
		p.Ops = append(p.Ops, Op{K: "ins", Dt: PickOne(r, insDts), P: pt})
		if r.Bool(0.08) {
			dup := *pt
			dup.ID = 1000 + i
			p.Ops = append(p.Ops, Op{K: "ins", Dt: PickOne(r, insDts), P: &dup})
		}
		if r.Bool(0.1) {
			p.Ops = append(p.Ops, Op{K: "flush", Dt: PickOne(r, insDts)})
		}
		if r.Bool(0.15) {
			p.Ops = append(p.Ops, Op{K: "adv", Dt: PickOne(r, advDts)})
		}
	}
	maybeYield(r, p, 0.4)
	return p
}

func openStandalone(e *Env, p *Plan, name string) (*Node, error) {
	return e.OpenNode(name, filepath.Join(e.Root, name+"-g0"), dbOpts(&p.Cfg), p.Tables)
}

// stepDt sleeps the op's dt (at least 1 µs: zenodb derives identities from
// the clock).
func stepDt(e *Env, op *Op) {
	dt := time.Duration(op.Dt)
	if dt < time.Microsecond {
		dt = time.Microsecond
	}
	e.Sleep(dt)
}

func execC01(e *Env, p *Plan) error {
	n, err := openStandalone(e, p, "n0")
	if err != nil {
		return err
	}
	m := NewModel(p.Tables)
	for i := range p.Ops {
		op := &p.Ops[i]
		stepDt(e, op)
		switch op.K {
		case "ins":
			if err := n.Insert(op.P); err != nil {
				return fmt.Errorf("insert: %v", err)
			}
			m.Offer(op.P, math.MinInt64)
			e.Count("op.ins")
		case "flush":
			n.DB.FlushAll()
			e.Count("op.flush")
		case "adv":
			e.Count("op.adv")
		}
		e.Sleep(0)
	}
	e.Settle()
	check := func(stage string, mem bool) error {
		for _, name := range sortedTables(m) {
			mt := m.Tables[name]
			file, fc, memRows := n.DB.SimStorageShape(name)
			e.Count(fmt.Sprintf("shape.%s.file=%v.mem=%v.fc=%d", stage, file != "", memRows > 0, fc%10))
			q := n.Query("SELECT * FROM "+name, QOpts{IncludeMem: mem})
			if q.Err != nil {
				return &Violation{"query-error", fmt.Sprintf("%s: SELECT * FROM %s: %v", stage, name, q.Err)}
			}
			e.Logf("%s %s rows=%d", stage, name, len(q.Rows))
			if v := compareToModelEnv(e, mt, q, stage); v != nil {
				return v
			}
			if len(mt.Rows) > 0 {
				e.Count("nontrivial")
			}
		}
		return nil
	}
	if err := check("mem", true); err != nil {
		return err
	}
	n.DB.FlushAll()
	e.Sleep(time.Millisecond)
	if err := check("flushed+mem", true); err != nil {
		return err
	}
	if err := check("flushed-disk", false); err != nil {
		return err
	}
	n.Close()
	return nil
}

func sortedTables(m *Model) []string {
	names := make([]string, 0, len(m.Tables))
	for n := range m.Tables {
		names = append(names, n)
	}
	sort.Strings(names)
	return names
}

// compareToModel checks a native-resolution SELECT * result against R.
func compareToModel(mt *MTable, q *QResult, stage string) *Violation {
	return compareToModelEnv(nil, mt, q, stage)
}

// hasConstBin reports whether the expression combines a constant with
// something else in a binary expression.
func hasConstBin(t *TableDef, e *FieldExpr) bool {
	if e == nil {
		return false
	}
	switch e.Kind {
	case "bin":
		if e.L.Kind == "const" || e.R.Kind == "const" {
			return true
		}
		return hasConstBin(t, e.L) || hasConstBin(t, e.R)
	case "if":
		return hasConstBin(t, e.Sub)
	case "ref":
		if f := t.field(e.Ref); f != nil && f.E != e && !(f.E.Kind == "ref" && f.E.Ref == e.Ref) {
			return hasConstBin(t, f.E)
		}
	}
	return false
}

func tableHasConstBin(t *TableDef) bool {
	for i := range t.Fields {
		if hasConstBin(t, t.Fields[i].E) {
			return true
		}
	}
	return false
}

func compareToModelEnv(e *Env, mt *MTable, q *QResult, stage string) *Violation {
	t := mt.Def
	seen := map[string]bool{}
	for i := range q.Rows {
		r := &q.Rows[i]
		id := fmt.Sprintf("%s@%d", r.Key, r.TS)
		if seen[id] {
			return &Violation{"duplicate-row", fmt.Sprintf("%s: table %s returned row %s twice", stage, t.Name, rowLine(q.Fields, r))}
		}
		seen[id] = true
		mr := mt.Rows[id]
		if mr == nil {
			if pi := q.Field("_points"); pi >= 0 && r.Vals[pi] == 0 && tableHasConstBin(t) {
				// a period without points reported as a row because a derived
				// field contains a constant
				if e != nil && e.Plan.Prop != "C01" {
					// recorded against C01; not the subject of other properties
					e.Count("tolerated.gap-row-const")
					continue
				}
				if e != nil && e.Known("C01-gap-row-const") {
					continue
				}
				return &Violation{"phantom-gap-row", fmt.Sprintf("%s: table %s returned row %s for a period that received no point (derived field with a constant operand reports a value for empty periods)", stage, t.Name, rowLine(q.Fields, r))}
			}
			return &Violation{"unexpected-row", fmt.Sprintf("%s: table %s returned row %s for which no accepted point exists", stage, t.Name, rowLine(q.Fields, r))}
		}
		for fi, fname := range q.Fields {
			got := r.Vals[fi]
			if fname == "_points" {
				if got != float64(len(mr.Pts)) {
					return &Violation{"points-mismatch", fmt.Sprintf("%s: table %s row %s: _points=%v, accepted points=%d (%s)", stage, t.Name, rowLine(q.Fields, r), got, len(mr.Pts), ptIDs(mr.Pts))}
				}
				continue
			}
			fd := t.field(fname)
			if fd == nil {
				return &Violation{"unknown-field", fmt.Sprintf("%s: table %s returned field %s", stage, t.Name, fname)}
			}
			if !fd.E.Modelled() {
				continue
			}
			fpts := mr.PtsSince(fd.Since)
			fv := EvalField(t, fd.E, fpts)
			if fv.Undef {
				continue
			}
			if len(fpts) == 0 {
				// the field did not exist yet when the row's points were
				// processed: nothing is stored for it (a constant operand makes the
				// reported value depend on whether an empty slot happens to exist:
				// the recorded finding C01-gap-row-const, not compared)
				if hasConstBin(t, fd.E) {
					continue
				}
				fv = FV{}
			}
			want := 0.0
			if fv.Found {
				want = fv.V
			}
			if !floatClose(got, want) {
				return &Violation{"value-mismatch", fmt.Sprintf("%s: table %s row %s: field %s (%s) = %v, reference = %v over points %s", stage, t.Name, rowLine(q.Fields, r), fname, fd.E.SQL(), got, want, ptIDs(mr.Pts))}
			}
		}
	}
	for _, id := range mt.SortedRowIDs() {
		if !seen[id] {
			mr := mt.Rows[id]
			return &Violation{"missing-row", fmt.Sprintf("%s: table %s has no row for key [%s] period %d although points %s were accepted", stage, t.Name, mr.Key, mr.TS-BaseNanos, ptIDs(mr.Pts))}
		}
	}
	return nil
}

func ptIDs(pts []*Point) string {
	s := "["
	for i, p := range pts {
		if i > 0 {
			s += ","
		}
		if i >= 12 {
			s += "..."
			break
		}
		s += fmt.Sprint(p.ID)
	}
	return s + "]"
}
