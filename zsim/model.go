package zsim

// The reference aggregator R (DESIGN 3.9): a deliberately naive model that
// keeps, per (table, group key, period end), the list of accepted raw points
// and evaluates the simulator's own schema AST over them. It imports nothing
// from zenodb.

import (
	"fmt"
	"math"
	"sort"
	"strings"
)

// tri-state logic for predicates
const (
	pFalse   = 0
	pTrue    = 1
	pUnknown = 2
)

func cmpVals(a, b Val) (int, bool) {
	if a.K != b.K {
		// int vs float comparisons are numeric
		an, aok := a.Num()
		bn, bok := b.Num()
		if aok && bok {
			switch {
			case an < bn:
				return -1, true
			case an > bn:
				return 1, true
			}
			return 0, true
		}
		return 0, false
	}
	switch a.K {
	case "i":
		switch {
		case a.I < b.I:
			return -1, true
		case a.I > b.I:
			return 1, true
		}
		return 0, true
	case "f":
		switch {
		case a.F < b.F:
			return -1, true
		case a.F > b.F:
			return 1, true
		}
		return 0, true
	case "s":
		return strings.Compare(a.S, b.S), true
	case "b":
		if a.B == b.B {
			return 0, true
		}
		if !a.B {
			return -1, true
		}
		return 1, true
	}
	return 0, false
}

// EvalPred evaluates p over dims with SQL-style three-valued logic: any
// comparison with a missing dimension or across incomparable types is Unknown.
func EvalPred(p *Pred, dims []KV) int {
	if p == nil {
		return pTrue
	}
	switch p.Kind {
	case "and":
		l, r := EvalPred(p.L, dims), EvalPred(p.R, dims)
		if l == pFalse || r == pFalse {
			return pFalse
		}
		if l == pTrue && r == pTrue {
			return pTrue
		}
		return pUnknown
	case "or":
		l, r := EvalPred(p.L, dims), EvalPred(p.R, dims)
		if l == pTrue || r == pTrue {
			return pTrue
		}
		if l == pFalse && r == pFalse {
			return pFalse
		}
		return pUnknown
	case "not":
		switch EvalPred(p.L, dims) {
		case pTrue:
			return pFalse
		case pFalse:
			return pTrue
		}
		return pUnknown
	case "isnull":
		v, ok := kvGet(dims, p.Dim)
		if !ok || v.K == "n" {
			return pTrue
		}
		return pFalse
	case "notnull":
		v, ok := kvGet(dims, p.Dim)
		if !ok || v.K == "n" {
			return pFalse
		}
		return pTrue
	case "cmp":
		v, ok := kvGet(dims, p.Dim)
		if !ok || v.K == "n" {
			return pUnknown
		}
		c, cok := cmpVals(v, *p.V)
		if !cok {
			return pUnknown
		}
		var r bool
		switch p.Op {
		case "=":
			r = c == 0
		case "<>":
			r = c != 0
		case "<":
			r = c < 0
		case ">":
			r = c > 0
		case "<=":
			r = c <= 0
		case ">=":
			r = c >= 0
		default:
			panic("bad op " + p.Op)
		}
		if r {
			return pTrue
		}
		return pFalse
	case "like":
		v, ok := kvGet(dims, p.Dim)
		if !ok || v.K != "s" {
			return pUnknown
		}
		pat := strings.ToLower(p.V.S)
		s := strings.ToLower(v.S)
		var r bool
		switch {
		case strings.HasPrefix(pat, "%") && strings.HasSuffix(pat, "%") && len(pat) >= 2:
			r = strings.Contains(s, pat[1:len(pat)-1])
		case strings.HasSuffix(pat, "%"):
			r = strings.HasPrefix(s, pat[:len(pat)-1])
		case strings.HasPrefix(pat, "%"):
			r = strings.HasSuffix(s, pat[1:])
		default:
			r = s == pat
		}
		if r {
			return pTrue
		}
		return pFalse
	case "in":
		v, ok := kvGet(dims, p.Dim)
		if !ok || v.K == "n" {
			return pUnknown
		}
		unknown := false
		for _, x := range p.Vs {
			c, cok := cmpVals(v, x)
			if !cok {
				unknown = true
				continue
			}
			if c == 0 {
				return pTrue
			}
		}
		if unknown {
			return pUnknown
		}
		return pFalse
	}
	panic("bad pred kind " + p.Kind)
}

// predDims lists the dimension names a predicate mentions.
func predDims(p *Pred, out map[string]bool) {
	if p == nil {
		return
	}
	if p.Dim != "" {
		out[p.Dim] = true
	}
	predDims(p.L, out)
	predDims(p.R, out)
}

func exprPreds(e *FieldExpr, out *[]*Pred) {
	if e == nil {
		return
	}
	if e.Cond != nil {
		*out = append(*out, e.Cond)
	}
	exprPreds(e.Sub, out)
	exprPreds(e.L, out)
	exprPreds(e.R, out)
}

// FV is a field value: found=false means "no value" (zenodb reports 0);
// undef=true means the model declines to define it (e.g. x/0).
type FV struct {
	V     float64
	Found bool
	Undef bool
}

// effWhere returns the predicate the model applies to points of t.
func (t *TableDef) effWhere() *Pred {
	if t.MWhere != nil {
		return t.MWhere
	}
	return t.Where
}

func numVal(p *Point, name string) (float64, bool) {
	if name == "_point" {
		return 1, true
	}
	v, ok := kvGet(p.Vals, name)
	if !ok {
		return 0, false
	}
	return v.Num()
}

// HasNumeric reports whether the point carries at least one numeric value.
func (p *Point) HasNumeric() bool {
	for _, kv := range p.Vals {
		if _, ok := kv.V.Num(); ok {
			return true
		}
	}
	return false
}

// EvalField evaluates expression e of table t over the given points.
func EvalField(t *TableDef, e *FieldExpr, pts []*Point) FV {
	switch e.Kind {
	case "const":
		return FV{V: e.C, Found: true}
	case "ref":
		f := t.field(e.Ref)
		if f == nil || (f.E.Kind == "ref" && f.E.Ref == e.Ref) {
			// an unknown name is an implicit SUM(name)
			return EvalField(t, &FieldExpr{Kind: "agg", Fn: "SUM", X: e.Ref}, pts)
		}
		return EvalField(t, f.E, pts)
	case "if":
		var sel []*Point
		for _, p := range pts {
			switch EvalPred(e.Cond, p.Dims) {
			case pTrue:
				sel = append(sel, p)
			case pUnknown:
				return FV{Undef: true}
			}
		}
		return EvalField(t, e.Sub, sel)
	case "bin":
		l := EvalField(t, e.L, pts)
		r := EvalField(t, e.R, pts)
		if l.Undef || r.Undef {
			return FV{Undef: true}
		}
		if !l.Found && !r.Found {
			return FV{}
		}
		switch e.Op {
		case "+":
			return FV{V: l.V + r.V, Found: true}
		case "-":
			return FV{V: l.V - r.V, Found: true}
		case "*":
			return FV{V: l.V * r.V, Found: true}
		case "/":
			if r.V == 0 {
				return FV{Undef: true}
			}
			return FV{V: l.V / r.V, Found: true}
		}
		panic("bad op " + e.Op)
	case "agg":
		n := 0
		var sum, mn, mx, wsum, wtot float64
		for _, p := range pts {
			x, ok := numVal(p, e.X)
			if !ok {
				continue
			}
			if e.Bnd && (x < e.Lo || x > e.Hi) {
				continue
			}
			if n == 0 || x < mn {
				mn = x
			}
			if n == 0 || x > mx {
				mx = x
			}
			n++
			sum += x
			if e.Fn == "WAVG" {
				w, _ := numVal(p, e.W)
				wsum += w
				wtot += x * w
			}
		}
		if n == 0 {
			return FV{}
		}
		switch e.Fn {
		case "SUM":
			return FV{V: sum, Found: true}
		case "COUNT":
			return FV{V: float64(n), Found: true}
		case "MIN":
			return FV{V: mn, Found: true}
		case "MAX":
			return FV{V: mx, Found: true}
		case "AVG":
			return FV{V: sum / float64(n), Found: true}
		case "WAVG":
			if wsum == 0 {
				return FV{Undef: true}
			}
			return FV{V: wtot / wsum, Found: true}
		}
		panic("bad fn " + e.Fn)
	}
	panic("model cannot evaluate kind " + e.Kind)
}

// ---------------------------------------------------------------------------

// MRow is one expected row.
type MRow struct {
	Key    string
	KeyKVs []KV
	TS     int64 // absolute unix nanos of the period end
	Pts    []*Point
	Seqs   []int // acceptance sequence numbers of Pts
}

// PtsSince returns the points accepted at or after sequence number since.
func (r *MRow) PtsSince(since int) []*Point {
	if since <= 0 {
		return r.Pts
	}
	var out []*Point
	for i, p := range r.Pts {
		if r.Seqs[i] >= since {
			out = append(out, p)
		}
	}
	return out
}

// Model keeps accepted points per table.
type Model struct {
	Tables map[string]*MTable
}

type MTable struct {
	Def  *TableDef
	Rows map[string]*MRow // key@ts
	// Accepted lists all accepted points in processing order.
	Accepted []*Point
	Rejected int
}

func NewModel(tables []TableDef) *Model {
	m := &Model{Tables: make(map[string]*MTable)}
	for i := range tables {
		t := &tables[i]
		m.Tables[t.Name] = &MTable{Def: t, Rows: make(map[string]*MRow)}
	}
	return m
}

// CeilTo returns the smallest multiple of res that is >= ts (both in absolute
// unix nanoseconds; ts >= 0).
func CeilTo(ts int64, res int64) int64 {
	q := ts / res
	if q*res < ts {
		q++
	}
	return q * res
}

// GroupKey projects a point's dims onto the table's group-by.
func GroupKey(groupBy []string, dims []KV) []KV {
	if len(groupBy) == 0 {
		return append([]KV(nil), dims...)
	}
	var out []KV
	for _, g := range groupBy {
		if v, ok := kvGet(dims, g); ok && v.K != "n" {
			out = append(out, KV{g, v})
		}
	}
	return out
}

// Accepts decides whether table t accepts point p when processed at database
// time nowAbs (absolute unix nanos; pass math.MinInt64 to disable expiry).
// The second result is false when the decision is undefined (Unknown WHERE).
func (mt *MTable) Accepts(p *Point, nowAbs int64) (bool, bool) {
	if p.Stream != mt.Def.Stream {
		return false, true
	}
	switch EvalPred(mt.Def.effWhere(), p.Dims) {
	case pFalse:
		return false, true
	case pUnknown:
		return false, false
	}
	if nowAbs != math.MinInt64 && BaseNanos+p.TS < nowAbs-mt.Def.RetNanos {
		return false, true
	}
	if !p.HasNumeric() {
		return false, true
	}
	return true, true
}

// Add records an accepted point.
func (mt *MTable) Add(p *Point) {
	kvs := GroupKey(mt.Def.GroupBy, p.Dims)
	key := CanonKey(kvs)
	ts := CeilTo(BaseNanos+p.TS, mt.Def.ResNanos)
	id := fmt.Sprintf("%s@%d", key, ts)
	r := mt.Rows[id]
	if r == nil {
		r = &MRow{Key: key, KeyKVs: kvs, TS: ts}
		mt.Rows[id] = r
	}
	r.Pts = append(r.Pts, p)
	r.Seqs = append(r.Seqs, len(mt.Accepted))
	mt.Accepted = append(mt.Accepted, p)
}

// Offer applies Accepts and Add; returns (accepted, defined).
func (m *Model) Offer(p *Point, nowAbs int64) {
	for _, mt := range m.Tables {
		ok, def := mt.Accepts(p, nowAbs)
		if !def {
			panic(fmt.Sprintf("model: undefined WHERE for point %d on table %s", p.ID, mt.Def.Name))
		}
		if ok {
			mt.Add(p)
		} else {
			mt.Rejected++
		}
	}
}

// SortedRowIDs returns row ids in a stable order.
func (mt *MTable) SortedRowIDs() []string {
	ids := make([]string, 0, len(mt.Rows))
	for id := range mt.Rows {
		ids = append(ids, id)
	}
	sort.Strings(ids)
	return ids
}

// floatClose compares with relative tolerance (values are reassociated by
// merges).
func floatClose(a, b float64) bool {
	if a == b || (math.IsNaN(a) && math.IsNaN(b)) {
		return true
	}
	d := math.Abs(a - b)
	m := math.Max(math.Abs(a), math.Abs(b))
	return d <= 1e-9*m || d < 1e-12
}

const minInt64 = math.MinInt64
