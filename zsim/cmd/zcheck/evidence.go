package main

import (
	"encoding/json"
	"fmt"
	"os"
	"path/filepath"
	"sort"
	"strings"
	"time"
)

func writeEvidence(prop string, meta *PropMeta, tier string, seed int64, all []*Result, known []KnownFinding, wall, searchWall time.Duration, violations int, workers int) error {
	evals := 0
	shapes := map[string]bool{}
	logs := map[string]bool{}
	counts := map[string]int{}
	var simNanos int64
	var samples []json.RawMessage
	okRuns, harness := 0, 0
	for _, r := range all {
		evals++
		switch r.Status {
		case "ok":
			okRuns++
		case "harness_error":
			harness++
		}
		if r.Nontriv && r.Status == "ok" {
			shapes[r.Shape+"/"+r.LogSHA[:min(12, len(r.LogSHA))]] = true
		}
		logs[r.LogSHA] = true
		simNanos += r.SimNanos
		for k, v := range r.Counts {
			counts[k] += v
		}
		if len(r.Sample) > 0 && string(r.Sample) != "null" && len(samples) < 3 {
			samples = append(samples, r.Sample)
		}
	}
	if len(samples) == 0 {
		samples = append(samples, json.RawMessage(`"no non-trivial run completed"`))
	}
	group := func(prefix string) map[string]int {
		out := map[string]int{}
		for k, v := range counts {
			if strings.HasPrefix(k, prefix) {
				out[strings.TrimPrefix(k, prefix)] = v
			}
		}
		return out
	}
	var probeWarnings []string
	for _, p := range meta.Probes {
		if counts[p] == 0 {
			probeWarnings = append(probeWarnings, p)
		}
	}
	sort.Strings(probeWarnings)
	hours := searchWall.Hours()
	if hours <= 0 {
		hours = 1e-9
	}
	var knownOut []map[string]interface{}
	for _, k := range known {
		knownOut = append(knownOut, map[string]interface{}{"id": k.ID, "what": k.What, "times_matched_in_search": counts["known."+k.ID]})
	}
	cov := map[string]interface{}{
		"evaluations":          evals,
		"distinct_nontrivial":  len(shapes),
		"rule":                 meta.Rule,
		"samples":              samples,
		"runs_ok":              okRuns,
		"runs_harness_error":   harness,
		"runs_per_hour":        int(float64(evals) / hours),
		"seeds_per_hour":       int(float64(evals) / hours),
		"simulated_seconds":    float64(simNanos) / 1e9,
		"distinct_event_logs":  len(logs),
		"faults_fired":         group("fault."),
		"hook_site_hits":       group("site."),
		"fail_site_passes":     group("failsite."),
		"storage_shapes":       len(group("shape.")),
		"coalescing_degrees":   group("coalesce."),
		"ops":                  group("op."),
		"probes":               group("probe."),
		"probes_at_zero":       probeWarnings,
		"known_findings":       knownOut,
		"workers":              workers,
		"components_real":      meta.Real,
		"components_stub":      meta.Stub,
		"interleaving_measure": "distinct_nontrivial counts distinct (hook-site adjacency set + storage-shape + fault counters + event-log hash) among non-trivial runs",
	}
	if counts["tv.programs"] > 0 {
		cov["programs"] = counts["tv.programs"]
		cov["disagreements_checked"] = counts["tv.compared"]
	}
	ev := map[string]interface{}{
		"property_id": prop,
		"tier":        tier,
		"seed":        seed,
		"level":       meta.Level,
		"coverage":    cov,
		"assumptions": meta.Assumptions,
		"wall_s":      wall.Seconds(),
		"violations":  violations,
	}
	dir := filepath.Join(verifDir, "evidence")
	if err := os.MkdirAll(dir, 0755); err != nil {
		return err
	}
	b, err := json.MarshalIndent(ev, "", " ")
	if err != nil {
		return err
	}
	if len(shapes) < 2 && violations == 0 {
		fmt.Fprintf(os.Stderr, "warning: only %d distinct non-trivial cases\n", len(shapes))
	}
	return os.WriteFile(filepath.Join(dir, prop+".json"), b, 0644)
}
