package main

import (
	"encoding/json"
	"fmt"
	"os"
	"path/filepath"
	"sync"
	"time"
)

type minimiser struct {
	sig     string
	known   string
	scratch string
	workers int
	budget  int
	spent   int
	until   time.Time
	seq     int
}

func (m *minimiser) write(plan map[string]interface{}) string {
	m.seq++
	p := filepath.Join(m.scratch, fmt.Sprintf("cand-%d.json", m.seq))
	b, _ := json.Marshal(plan)
	os.WriteFile(p, b, 0644)
	return p
}

// firstReproducing evaluates candidates in parallel and returns the index of
// the first (lowest index) candidate that reproduces the violation class.
func (m *minimiser) firstReproducing(cands []map[string]interface{}) int {
	if len(cands) == 0 || m.spent >= m.budget || time.Now().After(m.until) {
		return -1
	}
	if m.spent+len(cands) > m.budget {
		cands = cands[:m.budget-m.spent]
	}
	m.spent += len(cands)
	ok := make([]bool, len(cands))
	sem := make(chan struct{}, m.workers)
	var wg sync.WaitGroup
	for i, c := range cands {
		wg.Add(1)
		sem <- struct{}{}
		go func(i int, c map[string]interface{}) {
			defer wg.Done()
			defer func() { <-sem }()
			pf := m.write2(i, c)
			r, err := runPlanFile(pf, m.known, m.scratch, fmt.Sprintf("min-%d-%d", m.seq, i))
			if err == nil && r.Status == "violation" && r.Sig == m.sig {
				ok[i] = true
			}
		}(i, c)
	}
	wg.Wait()
	m.seq++
	for i, b := range ok {
		if b {
			return i
		}
	}
	return -1
}

func (m *minimiser) write2(i int, plan map[string]interface{}) string {
	p := filepath.Join(m.scratch, fmt.Sprintf("cand-%d-%d.json", m.seq, i))
	b, _ := json.Marshal(plan)
	os.WriteFile(p, b, 0644)
	return p
}

func clonePlan(p map[string]interface{}) map[string]interface{} {
	b, _ := json.Marshal(p)
	var out map[string]interface{}
	json.Unmarshal(b, &out)
	return out
}

func withOps(p map[string]interface{}, ops []interface{}) map[string]interface{} {
	c := clonePlan(p)
	c["ops"] = ops
	return c
}

// minimise shrinks the plan while the same violation signature persists.
func minimise(planFile, sig, known, scratch string, workers int) (string, int, int) {
	b, err := os.ReadFile(planFile)
	if err != nil {
		return "", 0, 0
	}
	var plan map[string]interface{}
	if err := json.Unmarshal(b, &plan); err != nil {
		return "", 0, 0
	}
	ops, _ := plan["ops"].([]interface{})
	n0 := len(ops)
	dir := filepath.Join(scratch, "min")
	os.MkdirAll(dir, 0755)
	m := &minimiser{sig: sig, known: known, scratch: dir, workers: workers, budget: 400, until: time.Now().Add(150 * time.Second)}

	// ddmin over ops
	n := 2
	for len(ops) >= 2 {
		chunk := (len(ops) + n - 1) / n
		var cands []map[string]interface{}
		var candOps [][]interface{}
		// complements first (remove one chunk)
		for i := 0; i < len(ops); i += chunk {
			end := i + chunk
			if end > len(ops) {
				end = len(ops)
			}
			rest := append(append([]interface{}{}, ops[:i]...), ops[end:]...)
			cands = append(cands, withOps(plan, rest))
			candOps = append(candOps, rest)
		}
		idx := m.firstReproducing(cands)
		if idx >= 0 {
			ops = candOps[idx]
			if n > 2 {
				n--
			}
			continue
		}
		if m.spent >= m.budget || time.Now().After(m.until) {
			break
		}
		if chunk == 1 {
			break
		}
		n *= 2
		if n > len(ops) {
			n = len(ops)
		}
	}
	plan["ops"] = ops

	// drop tables, then fields
	for {
		tables, _ := plan["tables"].([]interface{})
		if len(tables) <= 1 {
			break
		}
		var cands []map[string]interface{}
		for i := len(tables) - 1; i >= 0; i-- {
			c := clonePlan(plan)
			ct := c["tables"].([]interface{})
			c["tables"] = append(append([]interface{}{}, ct[:i]...), ct[i+1:]...)
			cands = append(cands, c)
		}
		idx := m.firstReproducing(cands)
		if idx < 0 {
			break
		}
		plan = cands[idx]
	}
	for {
		tables, _ := plan["tables"].([]interface{})
		var cands []map[string]interface{}
		for ti := range tables {
			t, _ := tables[ti].(map[string]interface{})
			fields, _ := t["fields"].([]interface{})
			if len(fields) <= 1 {
				continue
			}
			for fi := len(fields) - 1; fi >= 0; fi-- {
				c := clonePlan(plan)
				ct := c["tables"].([]interface{})[ti].(map[string]interface{})
				cf := ct["fields"].([]interface{})
				ct["fields"] = append(append([]interface{}{}, cf[:fi]...), cf[fi+1:]...)
				cands = append(cands, c)
			}
		}
		idx := m.firstReproducing(cands)
		if idx < 0 {
			break
		}
		plan = cands[idx]
	}
	// drop the where clause / view flag of each table
	for {
		tables, _ := plan["tables"].([]interface{})
		var cands []map[string]interface{}
		for ti := range tables {
			t, _ := tables[ti].(map[string]interface{})
			if _, has := t["where"]; has {
				if _, isView := t["view"]; !isView {
					c := clonePlan(plan)
					delete(c["tables"].([]interface{})[ti].(map[string]interface{}), "where")
					cands = append(cands, c)
				}
			}
		}
		idx := m.firstReproducing(cands)
		if idx < 0 {
			break
		}
		plan = cands[idx]
	}
	// one more pass removing single ops (cheap now)
	for {
		ops, _ := plan["ops"].([]interface{})
		if len(ops) <= 1 {
			break
		}
		var cands []map[string]interface{}
		for i := len(ops) - 1; i >= 0; i-- {
			rest := append(append([]interface{}{}, ops[:i]...), ops[i+1:]...)
			cands = append(cands, withOps(plan, rest))
		}
		idx := m.firstReproducing(cands)
		if idx < 0 {
			break
		}
		plan = cands[idx]
	}
	// shrink nested op lists ("sub": pauses of a scripted consumer, concurrent
	// queries, partition faults ...)
	for {
		ops, _ := plan["ops"].([]interface{})
		var cands []map[string]interface{}
		for oi := range ops {
			op, _ := ops[oi].(map[string]interface{})
			sub, _ := op["sub"].([]interface{})
			for si := len(sub) - 1; si >= 0 && len(sub) > 1; si-- {
				c := clonePlan(plan)
				cop := c["ops"].([]interface{})[oi].(map[string]interface{})
				cs := cop["sub"].([]interface{})
				cop["sub"] = append(append([]interface{}{}, cs[:si]...), cs[si+1:]...)
				cands = append(cands, c)
			}
			// second level (e.g. the points inserted during one pause)
			for si := range sub {
				sop, _ := sub[si].(map[string]interface{})
				ssub, _ := sop["sub"].([]interface{})
				for ti := len(ssub) - 1; ti >= 0 && len(ssub) > 1; ti-- {
					c := clonePlan(plan)
					csop := c["ops"].([]interface{})[oi].(map[string]interface{})["sub"].([]interface{})[si].(map[string]interface{})
					css := csop["sub"].([]interface{})
					csop["sub"] = append(append([]interface{}{}, css[:ti]...), css[ti+1:]...)
					cands = append(cands, c)
				}
			}
			// string lists (query batteries)
			strs, _ := op["strs"].([]interface{})
			if k, _ := op["k"].(string); k == "check" || k == "concurrent" {
				for si := len(strs) - 1; si >= 0 && len(strs) > 1; si-- {
					c := clonePlan(plan)
					cop := c["ops"].([]interface{})[oi].(map[string]interface{})
					cs := cop["strs"].([]interface{})
					cop["strs"] = append(append([]interface{}{}, cs[:si]...), cs[si+1:]...)
					cands = append(cands, c)
				}
			}
		}
		idx := m.firstReproducing(cands)
		if idx < 0 {
			break
		}
		plan = cands[idx]
	}
	// drop the tape
	if t, ok := plan["tape"].([]interface{}); ok && len(t) > 0 {
		c := clonePlan(plan)
		delete(c, "tape")
		if m.firstReproducing([]map[string]interface{}{c}) == 0 {
			plan = c
		}
	}

	finalOps, _ := plan["ops"].([]interface{})
	plan["minimised_from_ops"] = n0
	// final run to refresh signature/detail/log hash
	pf := m.write(plan)
	r, err := runPlanFile(pf, known, dir, "minfinal")
	if err != nil || r.Status != "violation" || r.Sig != sig {
		return "", n0, n0
	}
	plan["signature"] = r.Sig
	plan["detail"] = r.Detail
	plan["eventlog_sha256"] = r.LogSHA
	out := filepath.Join(scratch, "minimised.json")
	bb, _ := json.MarshalIndent(plan, "", " ")
	os.WriteFile(out, bb, 0644)
	return out, n0, len(finalOps)
}
