package main

import (
	"fmt"
	"os"
	"path/filepath"
	"sort"
	"strings"
	"sync"
	"time"
)

// selftest proves determinism: every seed of every registered property is
// executed in several fresh processes at different GOMAXPROCS values and with
// different neighbours; status, signature and event-log hash must agree.
func selftest(scratch, tier string, seed int64, workers int) int {
	seedsPer := 12
	if tier == "thorough" {
		seedsPer = 60
	}
	props := make([]string, 0, len(propMeta))
	for p := range propMeta {
		if only := os.Getenv("SELFTEST_PROPS"); only != "" && !strings.Contains(","+only+",", ","+p+",") {
			continue
		}
		props = append(props, p)
	}
	sort.Strings(props)
	type key struct {
		prop string
		seed uint64
	}
	type obs struct{ status, sig, sha string }
	results := map[key][]obs{}
	var mu sync.Mutex
	var wg sync.WaitGroup
	sem := make(chan struct{}, workers)
	procs := []string{"1", "4", "16", "2"}
	for _, prop := range props {
		known := ""
		for _, k := range loadKnown(prop) {
			if known != "" {
				known += ","
			}
			known += k.ID
		}
		for rep, gmp := range procs {
			// different chunking per repetition: neighbours differ
			chunk := []int{seedsPer, 3, 5, 1}[rep]
			for s := 0; s < seedsPer; s += chunk {
				n := chunk
				if s+n > seedsPer {
					n = seedsPer - s
				}
				wg.Add(1)
				sem <- struct{}{}
				go func(prop string, rep, s, n int, gmp, known string) {
					defer wg.Done()
					defer func() { <-sem }()
					out := filepath.Join(scratch, fmt.Sprintf("st-%s-%d-%d.jsonl", prop, rep, s))
					env := []string{"ZSIM_PROP=" + prop, "ZSIM_TIER=quick", "GOMAXPROCS=" + gmp,
						fmt.Sprintf("ZSIM_SEED_START=%d", uint64(seed)*1000000+900000+uint64(s)), fmt.Sprintf("ZSIM_SEED_COUNT=%d", n), "ZSIM_KNOWN=" + known}
					runWorker(env, out, 20*time.Minute)
					rs, _ := readResults(out)
					mu.Lock()
					for _, r := range rs {
						k := key{prop, r.Seed}
						results[k] = append(results[k], obs{r.Status, r.Sig, r.LogSHA})
					}
					mu.Unlock()
				}(prop, rep, s, n, gmp, known)
			}
		}
	}
	wg.Wait()
	bad := 0
	total := 0
	for k, os_ := range results {
		total++
		if len(os_) != len(procs) {
			fmt.Fprintf(os.Stderr, "selftest: %s seed %d: %d of %d executions reported\n", k.prop, k.seed, len(os_), len(procs))
			bad++
			continue
		}
		for _, o := range os_[1:] {
			if o != os_[0] {
				fmt.Fprintf(os.Stderr, "selftest: DIVERGENCE %s seed %d: %v vs %v\n", k.prop, k.seed, os_[0], o)
				bad++
				break
			}
		}
	}
	fmt.Printf("selftest: %d (property,seed) pairs x %d processes (GOMAXPROCS %v), %d divergent\n", total, len(procs), procs, bad)
	if bad > 0 || total == 0 {
		return 2
	}
	return 0
}
