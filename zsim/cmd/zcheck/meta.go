package main

// PropMeta is the per-property description used for budgets and evidence.
type PropMeta struct {
	Level        string
	QuickSecs    int
	ThoroughSecs int
	Recycle      int
	Rule         string
	Real         []string
	Stub         []string
	Assumptions  []string
	// Probes are count keys that are expected to be hit; a probe at zero is
	// reported as a warning in the evidence.
	Probes []string
}

var realS = []string{"zenodb.DB embedded API", "getlantern/wal on tmpfs (real files, fsync on write)", "row store (memstore + filestore, flush protocol)", "bytetree", "encoding", "expr", "sql parser", "planner", "core operators"}
var stubS = []string{"clock/timers: testing/synctest fake clock", "process crash: directory image taken at the crash instant", "process memory reading (hook H5) where used"}

var realCL = []string{"zenodb.DB passthrough leaders (WAL, processFollowers map/reduce pipeline, partition routing, queryCluster)", "zenodb.DB followers (followLeaders start timers, per-table dedup by offset, row stores, queryForRemote)", "planner cluster paths (pushdown / non-pushdown)", "optional: rpc msgpack codec on every message crossing a link", "standalone differential node D (all of world S)"}
var stubCL = []string{"transport between nodes: simulator links over DBOpts.Follow / DB.Follow / RegisterQueryHandler (delay, stall, cut, heal)", "reconnect policy of server.followSource (1 s doubling to 1 min, resume from last delivered offset) re-implemented in the harness", "clock/timers: testing/synctest fake clock", "process crash: directory image"}

var commonAssumptions = []string{
	"goroutine choice between hook sites is left to the Go scheduler; the event-layer discipline (quiesce after every op) makes the observable history a function of the plan, which the selftest checks by diffing event logs across processes and GOMAXPROCS values",
	"MinFlushLatency >= 1ms and ops separated by >= 1us of simulated time (zenodb derives file names and scan ids from the clock)",
}

var propMeta = map[string]*PropMeta{
	"C01": {
		Level: "exploration", QuickSecs: 40, ThoroughSecs: 600, Recycle: 300,
		Rule: "one case = one seeded plan: generated schema (1-3 tables + optional view on 1-2 streams, fields from the aggregate grammar), 3-150 generated points (boundary timestamps, duplicates, out-of-order, mixed-type dims, missing/extra/non-numeric values) interleaved with forced flushes and clock advances (timer flushes); oracle = independent reference aggregator over the accepted raw points, compared at three storage states (memstore, flushed+memstore, disk only). Non-trivial = at least one table with >=1 expected row was compared; distinct = distinct hash of (hook-site adjacency set, storage-shape counters, fault counters).",
		Real:  realS, Stub: stubS, Assumptions: commonAssumptions,
		Probes: []string{"site.flush.swapped", "site.rs.applied", "op.flush", "op.adv"},
	},
	"C04": {
		Level: "exploration", QuickSecs: 40, ThoroughSecs: 600, Recycle: 300,
		Rule: "one case = one seeded plan: generated schema (incl. PERCENTILE/SHIFT fields) and dataset with a random memstore/filestore split (timer and forced flushes), then 1-6 generated queries Q from the whole query grammar (field subsets, derived fields, WHERE, ASOF/UNTIL absolute and relative biased to end before the newest stored period, GROUP BY dims/_/*/period/stride/CROSSTAB, HAVING, ORDER BY, LIMIT/OFFSET, FROM-subquery), each run with or without the memstore; oracle = metamorphic before/after differential: memstore-inclusive probes (full dump and a grouped dump) are equal before and after every Q, and again after the next forced flush, where the disk-only dump must equal the memstore-inclusive one. Non-trivial = probes returned rows and at least one Q executed; distinct as for C01.",
		Real:  realS, Stub: stubS, Assumptions: append([]string{"probes are chosen so that they do not depend on the moving clock (native resolution, data far from the retention edge)"}, commonAssumptions...),
		Probes: []string{"q.nonempty", "op.q", "site.flush.swapped"},
	},
	"C03": {
		Level: "exploration", QuickSecs: 45, ThoroughSecs: 600, Recycle: 200,
		Rule: "one case = one seeded plan executed on twin instances A and B in one bubble: same generated schema (incl. PERCENTILE/SHIFT fields) and the same inserts, but independently drawn flush schedules (A: table latencies or forced-only; B: other min/max latencies, optional memory cap => sorted forced flushes, injected memory-pressure flushes via hook H5, many flushes so that the every-10th re-encoding flush happens), clock advances and clean restarts; oracle = metamorphic: at generated quiescent points a battery of generated queries (full dumps + field subsets, grouping, windows, having, order, crosstab, subqueries) returns the same multiset on A and B, and right after a completed forced flush the disk-only result equals the memstore-inclusive one. Non-trivial = at least one compared query returned rows; distinct as for C01.",
		Real:  realS, Stub: stubS, Assumptions: commonAssumptions,
		Probes: []string{"probe.tenth-flush", "fault.restart.clean", "fault.mempressure", "op.flushcheck"},
	},
	"C02": {
		Level: "fault_enumeration", QuickSecs: 50, ThoroughSecs: 900, Recycle: 200,
		Rule: "seeds come in blocks of 100 that share one generated base history (schema incl. view, 4-40 inserts, forced/timer flushes, clock advances incl. >10 s for old-file removal). Variants 0-79 of a block ENUMERATE the instrumented crash points: each of the 20 hook sites of the flush / offset-file / old-file-removal / open / ingest protocols x occurrences 1-4 (a crash = directory image taken synchronously inside the hook, restart = NewDB on the image); variants 80-99 SAMPLE fault schedules of 1-4 rounds: kills at quiescent instants, kills with an insert in flight (torn WAL tail of 5 prefix classes), injected I/O errors at the flush/offset sites (-> db.Panic -> crash image), clean restarts, crash points at later occurrences, and (variants 94-99) long-uptime histories where the process outlives the table's retention period. Oracle: ack ledger + reference aggregator: after the last restart and catch-up every table equals the model of all acknowledged points plus some subset of the in-flight points (so each in-flight point is reflected 0 or 1 times, all fields or none), before and after one more flush. Non-trivial = a table with >= 1 expected row was compared; distinct as for C01 (the fault trace is part of the hash).",
		Real:  realS, Stub: stubS,
		Assumptions: append([]string{"process-kill model: every completed system call survives, user-space state is lost (DESIGN 3.7); power loss is not modelled", "crash points beyond the 4th occurrence of a site are sampled, not enumerated"}, commonAssumptions...),
		Probes: []string{"fault.crash.site", "fault.crash.quiescent", "fault.crash.inflight", "fault.crash.ioerr", "fault.restart.clean", "probe.inflight-applied", "site.gc.removed", "site.open.fileChosen"},
	},
	"C18": {
		Level: "exploration", QuickSecs: 40, ThoroughSecs: 600, Recycle: 300,
		Rule: "one case = one seeded plan: generated dataset with a random storage split, then one memstore-inclusive full scan whose consumer is a script: between the snapshot and the first row (hook scan.snapshotTaken) and/or after generated row indexes it inserts 1-4 further points (70% aimed at the key and period of an earlier point, the rest new keys/periods), lets them drain into the live memstore (3 WAL polls), optionally forces a flush, and resumes. Oracle: reference aggregator frozen at scan start: the scan's rows must equal the model of exactly the points processed before the scan started (no later point in any row, every earlier point in every field); afterwards a fresh query must equal the model of all points. Non-trivial = at least one point was inserted during the scan and the snapshot model was non-empty.",
		Real:  realS, Stub: stubS, Assumptions: commonAssumptions,
		Probes: []string{"probe.pause", "probe.pause-before-first-row", "probe.flush-during-scan"},
	},
	"C17": {
		Level: "exploration", QuickSecs: 40, ThoroughSecs: 600, Recycle: 200,
		Rule: "one case = one seeded plan: generated dataset and storage split, then K=2..8 generated queries (mostly on one table; different field subsets, windows, grouping, limits, memstore options, consumers that stop after n rows). Every query is planned twice at the same simulated instant; one copy runs alone (spaced by more than IterationCoalesceInterval), the other copies run as concurrent goroutines whose arrival offsets relative to the coalesce interval (1 ms - 3 s, IterationConcurrency 1/2/4) are drawn from {0, inside, exactly at the edge, outside}. Oracle: metamorphic, each query's concurrent rows and error equal its solo rows and error. The hook scan.coalesced reports how many queries each shared scan served (coalescing_degrees). Non-trivial = at least one compared query returned rows.",
		Real:  realS, Stub: stubS, Assumptions: commonAssumptions,
		Probes: []string{"probe.coalesced>1"},
	},
	"C14": {
		Level: "exploration", QuickSecs: 40, ThoroughSecs: 600, Recycle: 200,
		Rule: "one case = one seeded history around the moving retention boundary: retention/resolution ratio in {3,4,6,10,30,200}; points whose age relative to the database clock is drawn from {exactly retention, +-1 ns, +-1..3 resolutions, 2x retention, random inside, newer than the clock}; 75% of the plans use the virtual clock (the clock is the largest accepted timestamp, so the plan positions the boundary exactly), 25% the simulated real clock with clock jumps of {1 resolution, retention/2, retention, retention+1 resolution, 3x retention} and clean restarts; forced and timer flushes; finally ten data-carrying flushes at a constant clock. Oracle = reference aggregator with the property's acceptance rule (not older than retention when processed): (a) every returned row is a model row with the model's values, (b) every model period newer than now-retention+1 resolution is returned with the model's values, (c) windowed queries return nothing that ended more than one resolution before now-retention, (d) after ten data-carrying flushes neither the disk-only nor the full dump contains such a period. Non-trivial = a table with live rows was compared.",
		Real:  realS, Stub: stubS,
		Assumptions: append([]string{"one resolution of slack on both sides of the boundary, as the statement allows", "real-clock plans keep points 1 s away from the boundary because a point is processed up to ~60 ms (WAL poll) after its insert"}, commonAssumptions...),
		Probes: []string{"probe.rejected-expired", "probe.has-expired-rows", "probe.checked-truncation", "fault.clockjump"},
	},
	"C15": {
		Level: "exploration", QuickSecs: 40, ThoroughSecs: 600, Recycle: 200,
		Rule: "one case = one seeded history interleaving inserts, forced/timer flushes, clock advances, clean restarts and table alterations (ApplySchema): random permutation of the fields, removal of a field, insertion of 0-2 new fields (incl. wide PERCENTILE fields) at random positions, and a changed or removed WHERE. Oracle = reference aggregator that tracks, per table, the WHERE in force when each point was processed and, per field, the acceptance sequence number from which the field exists: after every check point (mid-history, at the end, after a flush, after a restart on the latest definition) SELECT * must equal the model for every retained and every added field, and a single-field query must agree with the full dump. Non-trivial = at least one alteration was applied and a non-empty table was compared.",
		Real:  realS, Stub: stubS,
		Assumptions: append([]string{"alterations are applied at quiescent points (event layer): no entry is in flight while the definition changes", "a dropped field is never re-added with the same name and expression (the statement does not say whether its old values may come back)"}, commonAssumptions...),
		Probes: []string{"op.alter", "site.rs.fieldUpdate", "fault.restart.clean"},
	},
	"C09": {
		Level: "exploration", QuickSecs: 35, ThoroughSecs: 600, Recycle: 300,
		Rule: "one case = one seeded plan: generated dataset and storage split, then 2-6 generated base queries (field subsets, derived fields, WHERE, grouping), each with a generated key list of length 1-4 over fields, dimensions (incl. missing and mixed-type ones) and _time in every position with mixed directions, and LIMIT n in {0,1,2,3,5,8,1000} OFFSET m in {0,1,2,4,50}. The four variants (plain, ORDER BY, ORDER BY+LIMIT/OFFSET, LIMIT/OFFSET only) are planned at one simulated instant. Oracle: ORDER BY result is the same multiset as the plain result; adjacent rows are non-decreasing under the simulator's own typed lexicographic comparator (NULL placement accepted at either end, incomparable types not judged); LIMIT/OFFSET returns min(n, max(0, rows-m)) rows, all from the plain result, whose sort-key tuples equal positions m..m+n-1 of the ordered result. Non-trivial = a base query with more than one row was checked.",
		Real:  realS, Stub: stubS, Assumptions: commonAssumptions,
		Probes: []string{"q.error"},
	},
	"C06": {
		Level: "exploration", QuickSecs: 35, ThoroughSecs: 600, Recycle: 300,
		Rule: "one case = one seeded plan: generated schema and dataset with a random storage split; 2-8 grouped queries, each issued at a simulated instant positioned relative to the table's period boundary (on it, +-1 ns, +-1 ms, mid-period, random) because coarse buckets are anchored at the moving until = ceil(now); grouping over every kind of dim subset (none, all, subsets incl. dims the table does not keep), period multiples {none,1,2,3,5,7,13, larger than the window}, field lists with _points, table fields and derived ratios/sums. Oracle = reference aggregator using only what the result source reports (asOf, until, resolution): row timestamps congruent to until modulo the period and distinct per key (disjoint periods); every row equals the aggregate of the raw accepted points whose group key projects onto the row key and whose native period end lies in (T-P, T]; every accepted point with a native period end inside (asOf, until] is covered by exactly one row (_points exact, missing rows reported). Non-trivial = a query with at least one point inside its window was compared.",
		Real:  realS, Stub: stubS, Assumptions: commonAssumptions,
		Probes: []string{"q.error"},
	},
	"C07": {
		Level: "exploration", QuickSecs: 35, ThoroughSecs: 600, Recycle: 300,
		Rule: "one case = one seeded plan: generated schema (retention 30 s - 2 h) and dataset, clock jumps of {1 resolution, retention/4, /2, 1x} so that part of the data expires, then 2-8 queries with generated (asOf, until) pairs: absolute (RFC3339) or relative to the database clock, aligned / unaligned / 1 ns off the resolution grid, inside / outside / straddling the stored data, reaching back beyond the table's asOf, asOf only, or no range; combined with every kind of grouping and with period multiples; each issued at an instant positioned relative to the period boundary. Oracle: (R) the reported window equals the requested range rounded up to the resolution, and the rows are exactly the reference aggregator's buckets of that window; (M) at native resolution the bounded rows equal the rows of the same query without a range that lie wholly inside the window; an unranged ungrouped dump may not return periods outside the window it reports; a range that starts before the table's asOf must be refused. Non-trivial as for C06.",
		Real:  realS, Stub: stubS, Assumptions: commonAssumptions,
		Probes: []string{"q.refused-asof-before-table", "probe.m-nonempty", "fault.clockjump"},
	},
	"C08": {
		Level: "exploration", QuickSecs: 35, ThoroughSecs: 600, Recycle: 200,
		Rule: "one case = one seeded plan on twin instances: A receives every generated point, B only those whose dimensions satisfy the plan's WHERE predicate (decided by the simulator's own three-valued evaluator); 2-6 generated queries of four kinds: (i) Q WHERE p on A vs Q on B; (ii) Q HAVING f op c vs the rows of Q+ (Q plus f if unselected) that satisfy the predicate on the reported values, helper column absent; (iii) dim IN (SELECT dim ... [WHERE][HAVING]) vs IN over the literal list of distinct values obtained by running the subquery alone; (iv) SELECT f FROM (grouped inner query) GROUP BY coarser dims vs summing f over the materialised inner rows. All queries of one comparison are planned at one simulated instant. Non-trivial = a compared query returned rows.",
		Real:  realS, Stub: stubS,
		Assumptions: append([]string{"the simulator contributes storage splits and the common clock; the deciding power is the program generator plus the differential (DESIGN 4/C08)", "predicates only use dimensions that every point carries and every table keeps in its key (comparisons with NULL are not defined by the statement)"}, commonAssumptions...),
		Probes: []string{"op.where", "op.having", "op.insub", "op.fromsub", "probe.point-matches-pred"},
	},
	"C10": {
		Level: "exploration", QuickSecs: 60, ThoroughSecs: 900, Recycle: 60,
		Rule: "one case = one seeded plan in world CL: 1-2 passthrough leaders, P=1..5 partitions x 1-2 followers (all real zenodb.DB in one bubble, link-level transport, msgpack codec on in half of the plans) plus a standalone differential node D fed the same points in the same order; generated schema with partitionBy in {none, subsets of dims} per table; 3-50 points sent to a generated leader each, starting before / while / after the followers' 30 s + 5 s start timers; follower flushes, link delays; no cuts or crashes (C12/C13). Oracle: after catch-up (a) per table and (key, period) the partitions together hold exactly D's _points and redundant followers of a partition are identical, (b) a generated query battery (field subsets, derived fields, WHERE, windows, grouping, HAVING, ORDER BY, CROSSTAB, FROM-subqueries) returns on every leader the same multiset as on D with all partitions successful. Non-trivial = a compared query returned rows.",
		Real:  realCL, Stub: stubCL,
		Assumptions: append([]string{"in-stream message loss/duplication/reordering is not injected (both real links are ordered streams)", "leader and D plan each query at the same simulated instant; link delays are small compared with the resolution"}, commonAssumptions...),
		Probes: []string{"probe.routing-checked", "link.delivered", "codec.point", "codec.row"},
	},
	"C12": {
		Level: "exploration", QuickSecs: 75, ThoroughSecs: 1200, Recycle: 40,
		Rule: "one case = one seeded plan in world CL (1-2 leaders, 2-3 partitions, 1-2 followers each, codec on in half of the plans) with a standalone differential node D: 5-60 inserts interleaved with 1-8 faults drawn from {stop/start follower (clean), kill follower at a quiescent instant and restart it on the crash image, crash point at the n-th hit of a flush/offset site on a follower, stop/start or kill/restart a leader, cut a replication link at a message boundary (healed later or only when faults stop), stall a link for 0.5-40 s, per-message delay, replace a follower by an empty one}, follower flushes and clock advances up to 70 s (reconnect back-off). Oracle: once faults stop (every link healed, every node up) then within 5 simulated minutes (a) per table and (key, period) the partitions together hold exactly D's _points (each accepted point exactly once), (b) redundant followers of a partition are identical, (c) a generated query battery returns the same rows through every leader as on D with all partitions successful. Non-trivial = a compared query returned rows.",
		Real:  realCL, Stub: stubCL,
		Assumptions: append([]string{"leader WAL is never truncated by size (the property assumes followers can catch up)", "in-stream loss/duplication/reordering is not injected; re-delivery after reconnect is (resume from the last acknowledged offset)"}, commonAssumptions...),
		Probes: []string{"fault.node.stop", "fault.node.kill", "fault.node.crashpoint", "fault.link.cut", "fault.link.stall", "fault.node.replaced-empty", "fault.link.broken-delivery", "probe.routing-checked"},
	},
	"C20": {
		Level: "exploration", QuickSecs: 60, ThoroughSecs: 900, Recycle: 40,
		Rule: "one case = one seeded plan executed three ways in one bubble: (1) a cluster (1 leader, 1-3 partitions) whose every link message - WAL entries, field lists with their expressions, raw series rows, flat rows - passes through the real msgpack RPC codec (Marshal -> bytes -> Unmarshal into fresh objects), with the round-trip law asserted per message (decoded Fields.Equals the original, byte-identical keys/series/values); (2) a standalone node behind the real rpcserver, fed through the real rpc client (snappy conn, gRPC, codec) over in-memory pipes; (3) a standalone node driven through the embedded API. Schemas draw from the whole field grammar (SUM/MIN/MAX/COUNT/AVG/WAVG, BOUNDED, IF, binary arithmetic, PERCENTILE), points carry all supported scalar types, queries cover pushdown (flat rows) and non-pushdown plans (leader re-groups follower series with follower-supplied decoded expressions), derived fields, HAVING comparisons, subqueries. Oracle: all three answers are equal as multisets, query metadata over RPC equals the embedded source's. Non-trivial = a compared query returned rows.",
		Real:  append([]string{"rpc.Codec (msgpack with expression extensions) on every cluster message", "rpc client + rpcserver + gRPC v1.22 + snappy conn over net.Pipe (insert and query streams)"}, realCL...), Stub: stubCL,
		Assumptions: append([]string{"the pure round-trip law for arbitrary expression trees is covered only as far as generated schemas and queries carry those trees across the link (no stand-alone codec fuzzer: that would be another technique)"}, commonAssumptions...),
		Probes: []string{"codec.fields", "codec.row", "codec.flatrow", "codec.point", "probe.rpc-query-compared"},
	},
	"C13": {
		Level: "fault_enumeration", QuickSecs: 60, ThoroughSecs: 900, Recycle: 40,
		Rule: "one case = one seeded plan with a cluster (1 leader, 1-4 partitions, codec in 30%), a standalone differential node D and the real web handler on D. After ingest and catch-up, 3-8 generated queries are each run under one fault family: (cq) cluster query with a generated non-empty subset of partitions x failure mode from the complete list {no live handler, error before fields, error after fields, error after k rows, retriable error with no handler left, hangs past ClusterQueryTimeout, answers after the timeout, slow but in time} and a caller deadline in {none, 60 s, 4 s}, plus the fault-free control; (dq) embedded query with a deadline that is already expired or expires while the scripted consumer pauses at row j; (hq) HTTP GET /run, /run again (cache) and /async through the real router with MaxResponseBytes in {default, 60, 200, 1000, 1 GiB} and QueryTimeout in {default, 0.5 s} against an iteration coalesce interval of 1 ms or 2 s. Oracle: D's answer is the ground truth for 'complete'; whenever the returned rows are not exactly D's rows the caller must have been told (embedded: non-nil error; cluster: error, or successful < total with every failed partition listed in MissingPartitions; HTTP: status other than 200); the fault-free control must be complete and equal. The failure-mode list is enumerated by the generator (every mode x every partition index is drawn many times per batch); subsets and queries are sampled. Non-trivial = a check whose ground truth has rows.",
		Real:  append([]string{"web.Configure router, query cache (bolt), doQuery, HTTP responses via Router.ServeHTTP"}, realCL...), Stub: append([]string{"query-handler faults: wrapper around the follower's registered handler function"}, stubCL...),
		Assumptions: commonAssumptions,
		Probes: []string{"probe.cq-fault-free", "probe.cq-fault.noregister", "probe.cq-fault.err-before", "probe.cq-fault.err-after-fields", "probe.cq-fault.err-mid", "probe.cq-fault.retriable", "probe.cq-fault.hang", "probe.cq-fault.slow-late", "probe.dq-expired", "probe.dq-expired-mid-scan", "probe.http.200", "probe.http.500"},
	},
	"C19": {
		Level: "fault_enumeration", QuickSecs: 40, ThoroughSecs: 300, Recycle: 40,
		Rule: "finite lattice, enumerated: the seed selects one of 80 configuration cells {OAuth configured / not} x {password configured / not} x GitHub stub behaviour {member, not member, HTTP 500, unreachable} x clock position {+10 min, +59 min, +61 min, +2 h, +5 h after the session was issued with its 1 h lifetime}; inside a cell the executor issues every credential {none, wrong static token, right static token, cookie signed with other keys, tampered cookie, well-signed session cookie} x every data endpoint {/run, /async, /immediate, /metrics, /cached/<permalink>} through the real router, and every RPC credential {none, wrong, right password} x {query, follow, remote-query-handler registration} through the real rpc client/server over in-memory pipes (the registration case is judged by whether the rogue handler receives the text of the leader's next query). Oracle = the credential predicate of the statement evaluated at the simulated instant. A batch covers all 80 cells many times (exhaustive over the lattice). Non-trivial = a request was judged.",
		Real:  []string{"web.Configure router, authenticate(), securecookie, query cache", "rpc client + rpcserver + gRPC over net.Pipe: query, follow, remoteQuery streams", "zenodb.DB standalone and passthrough leader"}, Stub: []string{"GitHub API (hook H6 transport)", "clock: testing/synctest"},
		Assumptions: commonAssumptions,
		Probes: []string{"probe.web.session-cookie", "probe.web.right-token", "probe.rpc.query.none", "probe.rpc.follow.wrong", "probe.rpc.remotequery.none"},
	},
	"C16": {
		Level: "exploration", QuickSecs: 50, ThoroughSecs: 900, Recycle: 60,
		Rule: "one case = one seeded plan on a standalone node, a 2-partition cluster and the web insert endpoint, with a differential node D that only receives the valid points: 4-16 valid points with malformed traffic in between: (i) SQL strings: grammar-derived queries mutated 1-3 times (token delete/duplicate/swap, truncation, odd tokens, statement-type substitution, wrapping, splicing) or drawn from a list of ~90 statements (non-SELECT statements, wrong arities and argument types for every function, unknown tables/fields/functions, bad periods/limits/ranges, odd quoting, nested subqueries), each fed to sql.Parse, sql.TableFor, DB.Query on the standalone node, DB.Query on the passthrough leader (cluster planner) and DB.Query as subquery, under recover; (ii) 22 kinds of insert payloads (empty/nil maps, nil/slice/map/struct/odd-typed dims, non-numeric/NaN/Inf/array/empty-array values, garbage and truncated raw byte maps, unknown stream, huge values, JSON bodies for POST /insert) sent to the standalone node, the leader or the web endpoint. Oracle: no panic in the caller; and bounded liveness: afterwards every valid point is ingested on the standalone node and, within 5 simulated minutes, replicated to the followers. The SQL half is an input property that the simulator merely hosts; the schedule-dependent half is the pipeline liveness.",
		Real:  append([]string{"sql parser, planner (local and cluster), web /insert handler"}, realCL...), Stub: stubCL,
		Assumptions: commonAssumptions,
		Probes: []string{"op.sql", "op.payload.S", "op.payload.L", "op.payload.W"},
	},
	"C11": {
		Level: "translation_validation", QuickSecs: 45, ThoroughSecs: 900, Recycle: 100,
		Rule: "one case = one seeded plan in world PL: a real passthrough leader whose per-partition query handlers are harness functions (db.Query -> Iterate, or UnflattenOptimized(...).Iterate) in front of N = 1..6 real standalone databases, plus a union database with all points. Placement of points on partitions is a seeded map from the values of the table's partition keys (all dims if none) to a partition - i.e. any key-respecting split, not just murmur3's. 3-9 generated queries per plan from the whole grammar (field subsets, derived fields, WHERE incl. string literals that contain SQL keywords and IN-subqueries with their own GROUP BY/HAVING, windows, GROUP BY dims/expressions/period/stride, CROSSTAB, HAVING, ORDER BY, FROM-subqueries). Oracle per program: rows(cluster plan through the leader) == rows(local plan over the union); both fail or both succeed; and when the plan text shows whole-query pushdown every output group occurs in the answer of exactly one partition. programs = queries validated, disagreements_checked = queries whose two answers were compared row by row.",
		Real:  []string{"planner.Plan cluster paths (pushdownAllowed, planClusterPushdown, planClusterNonPushdown) inside a real passthrough zenodb.DB", "DB.queryCluster fan-out/union", "N + 1 real standalone zenodb.DB (world S components)"}, Stub: []string{"per-partition handlers: harness functions over exported API instead of followers behind RPC", "placement of rows on partitions (seeded, key-respecting)", "clock: testing/synctest"},
		Assumptions: commonAssumptions,
		Probes: []string{"probe.plan-pushdown", "probe.plan-nonpushdown"},
	},
}
