// zcheck is the runner: it fans seeds out to zsim.test worker processes,
// confirms and minimises violations, applies the committed known-findings
// list, writes the evidence file and sets the exit code
// (0 held, 1 VIOLATION, 2 harness/build trouble).
package main

import (
	"bufio"
	"crypto/sha256"
	"encoding/hex"
	"encoding/json"
	"flag"
	"fmt"
	"os"
	"os/exec"
	"path/filepath"
	"runtime"
	"sort"
	"strconv"
	"strings"
	"sync"
	"time"
)

type Result struct {
	Prop     string          `json:"property"`
	Seed     uint64          `json:"seed"`
	Status   string          `json:"status"`
	Sig      string          `json:"sig,omitempty"`
	Detail   string          `json:"detail,omitempty"`
	Nontriv  bool            `json:"nontrivial"`
	Shape    string          `json:"shape,omitempty"`
	LogSHA   string          `json:"logsha,omitempty"`
	SimNanos int64           `json:"simNanos"`
	WallNs   int64           `json:"wallNs"`
	Counts   map[string]int  `json:"counts,omitempty"`
	NOps     int             `json:"nops"`
	Sample   json.RawMessage `json:"sample,omitempty"`
	PlanFile string          `json:"planFile,omitempty"`
}

type KnownFinding struct {
	Property string `json:"property"`
	ID       string `json:"id"`
	What     string `json:"what"`
	Canary   string `json:"canary,omitempty"` // replay file (relative to /verif) that reproduces it
	Sig      string `json:"sig,omitempty"`    // violation signature the canary produces when the finding is not listed
}

var (
	verifDir = "/verif"
	binPath  string
)

// scratchDir is removed by every exit path (os.Exit skips deferred calls).
var scratchDir string

func exitClean(code int) {
	if scratchDir != "" {
		os.RemoveAll(scratchDir)
	}
	os.Exit(code)
}

func fatal2(format string, a ...interface{}) {
	fmt.Fprintf(os.Stderr, "zcheck: "+format+"\n", a...)
	exitClean(2)
}

func loadKnown(prop string) []KnownFinding {
	var out []KnownFinding
	f, err := os.Open(filepath.Join(verifDir, "known_findings.jsonl"))
	if err != nil {
		return nil
	}
	defer f.Close()
	sc := bufio.NewScanner(f)
	sc.Buffer(make([]byte, 1<<20), 1<<20)
	for sc.Scan() {
		line := strings.TrimSpace(sc.Text())
		if line == "" || strings.HasPrefix(line, "#") || strings.HasPrefix(line, "fixed:") {
			continue
		}
		var k KnownFinding
		if err := json.Unmarshal([]byte(line), &k); err != nil {
			fatal2("bad known_findings line: %v", err)
		}
		if k.Property == prop {
			out = append(out, k)
		}
	}
	return out
}

type workerSpec struct {
	env  []string
	out  string
	done chan struct{}
	err  error
}

func runWorker(env []string, out string, timeout time.Duration) error {
	cmd := exec.Command(binPath, "-test.run", "^TestWorker$", "-test.timeout", "0")
	cmd.Env = append(os.Environ(), env...)
	cmd.Env = append(cmd.Env, "ZSIM_OUT="+out)
	logf, _ := os.Create(out + ".log")
	defer logf.Close()
	cmd.Stdout = logf
	cmd.Stderr = logf
	if err := cmd.Start(); err != nil {
		return err
	}
	done := make(chan error, 1)
	go func() { done <- cmd.Wait() }()
	select {
	case err := <-done:
		return err
	case <-time.After(timeout):
		cmd.Process.Kill()
		<-done
		return fmt.Errorf("worker killed after %v", timeout)
	}
}

func readResults(path string) ([]*Result, bool) {
	f, err := os.Open(path)
	if err != nil {
		return nil, false
	}
	defer f.Close()
	var out []*Result
	ended := false
	sc := bufio.NewScanner(f)
	sc.Buffer(make([]byte, 16<<20), 16<<20)
	for sc.Scan() {
		r := &Result{}
		if err := json.Unmarshal(sc.Bytes(), r); err != nil {
			continue
		}
		if r.Status == "end" {
			ended = true
			continue
		}
		out = append(out, r)
	}
	return out, ended
}

// runPlanFile executes one plan file in a fresh process.
func runPlanFile(plan string, known string, scratch string, tag string) (*Result, error) {
	out := filepath.Join(scratch, "replay-"+tag+".jsonl")
	err := runWorker([]string{"ZSIM_PROP=replay", "ZSIM_PLAN=" + plan, "ZSIM_KNOWN=" + known}, out, 5*time.Minute)
	rs, _ := readResults(out)
	if len(rs) == 0 {
		if err != nil {
			b, _ := os.ReadFile(out + ".log")
			tail := string(b)
			if len(tail) > 3000 {
				tail = tail[len(tail)-3000:]
			}
			sig := "process-crash"
			if strings.Contains(tail, "WATCHDOG:") {
				sig = "hang"
			}
			return &Result{Status: "crash", Sig: sig, Detail: tail}, nil
		}
		return nil, fmt.Errorf("no result from replay of %s", plan)
	}
	return rs[0], nil
}

func sha8(s string) string {
	h := sha256.Sum256([]byte(s))
	return hex.EncodeToString(h[:])[:8]
}

func main() {
	tier := flag.String("tier", "", "quick|thorough")
	replay := flag.String("replay", "", "replay file")
	budget := flag.Int("budget", 0, "wall seconds for the search (overrides the tier default)")
	maxRuns := flag.Int64("runs", 0, "maximum number of runs (0 = by time)")
	workers := flag.Int("workers", 0, "worker processes (default: NumCPU)")
	noMin := flag.Bool("nomin", false, "do not minimise")
	flag.Usage = func() {
		fmt.Fprintf(os.Stderr, "usage: zcheck [flags] <property>|selftest\n")
		flag.PrintDefaults()
	}
	// accept "zcheck <property> [flags]" as well as "zcheck [flags] <property>"
	args := os.Args[1:]
	prop := ""
	if len(args) > 0 && !strings.HasPrefix(args[0], "-") {
		prop = args[0]
		args = args[1:]
	}
	flag.CommandLine.Parse(args)
	if prop == "" && flag.NArg() >= 1 {
		prop = flag.Arg(0)
	}
	if prop == "" {
		flag.Usage()
		os.Exit(2)
	}
	if d := os.Getenv("VERIF_DIR"); d != "" {
		verifDir = d
	}
	binPath = filepath.Join(verifDir, ".build", "zsim.test")
	if _, err := os.Stat(binPath); err != nil {
		fatal2("worker binary missing: %v (run bin/build)", err)
	}
	if *tier == "" {
		*tier = os.Getenv("VERIF_TIER")
	}
	if *tier == "" {
		*tier = "quick"
	}
	seed := int64(1)
	if s := os.Getenv("VERIF_SEED"); s != "" {
		v, err := strconv.ParseInt(s, 10, 64)
		if err != nil {
			// any string is accepted: hash it
			h := sha256.Sum256([]byte(s))
			v = int64(h[0])<<24 | int64(h[1])<<16 | int64(h[2])<<8 | int64(h[3])
		}
		seed = v
	}
	if *workers <= 0 {
		*workers = runtime.NumCPU()
	}
	scratchBase := os.Getenv("ZSIM_TMP")
	if scratchBase == "" {
		if st, err := os.Stat("/dev/shm"); err == nil && st.IsDir() {
			scratchBase = "/dev/shm"
		} else {
			scratchBase = os.TempDir()
		}
	}
	scratch, err := os.MkdirTemp(scratchBase, "zcheck-")
	if err != nil {
		fatal2("%v", err)
	}
	defer os.RemoveAll(scratch)
	scratchDir = scratch
	os.Setenv("ZSIM_TMP", scratch)

	if prop == "selftest" {
		exitClean(selftest(scratch, *tier, seed, *workers))
	}
	meta, ok := propMeta[prop]
	if !ok {
		fatal2("unknown property %s", prop)
	}
	known := loadKnown(prop)
	var knownIDs []string
	for _, k := range known {
		knownIDs = append(knownIDs, k.ID)
	}
	knownEnv := strings.Join(knownIDs, ",")

	if *replay != "" {
		r, err := runPlanFile(*replay, knownEnv, scratch, "user")
		if err != nil {
			fatal2("%v", err)
		}
		fmt.Printf("replay status=%s sig=%s\n%s\n", r.Status, r.Sig, r.Detail)
		if r.Status == "violation" || r.Status == "crash" {
			fmt.Printf("VIOLATION property=%s replay=%s\n", prop, *replay)
			exitClean(1)
		}
		if r.Status != "ok" {
			exitClean(2)
		}
		exitClean(0)
	}

	start := time.Now()
	secs := meta.QuickSecs
	if *tier == "thorough" {
		secs = meta.ThoroughSecs
	}
	if *budget > 0 {
		secs = *budget
	}
	deadline := start.Add(time.Duration(secs) * time.Second)

	// 1. canaries for listed known findings
	exit := 0
	for _, k := range known {
		if k.Canary == "" {
			fmt.Printf("KNOWN-FINDING: property=%s %s\n", prop, k.What)
			continue
		}
		// run the canary with the finding NOT listed: it must reproduce
		r, err := runPlanFile(filepath.Join(verifDir, k.Canary), "", scratch, "canary-"+k.ID)
		if err != nil {
			fatal2("canary %s: %v", k.ID, err)
		}
		if r.Status == "violation" || r.Status == "crash" {
			fmt.Printf("KNOWN-FINDING: property=%s %s [%s reproduces: %s]\n", prop, k.What, k.Canary, r.Sig)
		} else if r.Status == "ok" {
			fmt.Printf("note: known finding %s no longer reproduces with %s (repaired?)\n", k.ID, k.Canary)
		} else {
			fatal2("canary %s: harness error: %s %s", k.ID, r.Sig, r.Detail)
		}
	}

	// 2. the seeded search
	base := uint64(seed) * 1000000
	planDir := filepath.Join(scratch, "plans")
	os.MkdirAll(planDir, 0755)
	var mu sync.Mutex
	var all []*Result
	var crashes []uint64
	crashLogs := map[uint64]string{}
	var harnessErrs []*Result
	var wg sync.WaitGroup
	W := *workers
	perWorkerRuns := int64(1 << 40)
	if *maxRuns > 0 {
		perWorkerRuns = (*maxRuns + int64(W) - 1) / int64(W)
	}
	foundViolation := make(chan struct{})
	var once sync.Once
	for w := 0; w < W; w++ {
		wg.Add(1)
		go func(w int) {
			defer wg.Done()
			next := int64(0)
			round := 0
			for time.Now().Before(deadline) && next < perWorkerRuns {
				select {
				case <-foundViolation:
					return
				default:
				}
				out := filepath.Join(scratch, fmt.Sprintf("w%d-%d.jsonl", w, round))
				round++
				chunk := int64(meta.Recycle)
				if chunk <= 0 {
					chunk = 300
				}
				if next+chunk > perWorkerRuns {
					chunk = perWorkerRuns - next
				}
				env := []string{
					"ZSIM_PROP=" + prop, "ZSIM_TIER=" + *tier,
					fmt.Sprintf("ZSIM_SEED_START=%d", base+uint64(w)+uint64(next)*uint64(W)),
					fmt.Sprintf("ZSIM_SEED_STEP=%d", W),
					fmt.Sprintf("ZSIM_SEED_COUNT=%d", chunk),
					fmt.Sprintf("ZSIM_RECYCLE=%d", chunk),
					fmt.Sprintf("ZSIM_DEADLINE=%d", deadline.Unix()),
					"ZSIM_PLANDIR=" + planDir, "ZSIM_KNOWN=" + knownEnv,
				}
				werr := runWorker(env, out, time.Until(deadline)+10*time.Minute)
				rs, ended := readResults(out)
				mu.Lock()
				all = append(all, rs...)
				for _, r := range rs {
					if r.Status == "violation" {
						once.Do(func() { close(foundViolation) })
					}
					if r.Status == "harness_error" {
						harnessErrs = append(harnessErrs, r)
					}
				}
				if !ended {
					// the worker died: the seed it was running is the suspect
					if b, err := os.ReadFile(out + ".cur"); err == nil {
						if s, err := strconv.ParseUint(strings.TrimSpace(string(b)), 10, 64); err == nil {
							crashes = append(crashes, s)
							if lb, err := os.ReadFile(out + ".log"); err == nil {
								tail := string(lb)
								if len(tail) > 4000 {
									tail = tail[len(tail)-4000:]
								}
								crashLogs[s] = tail
							}
							once.Do(func() { close(foundViolation) })
						}
					}
					_ = werr
				}
				mu.Unlock()
				next += int64(len(rs))
				if !ended {
					next++
				}
				if len(rs) == 0 && ended {
					return
				}
			}
		}(w)
	}
	wg.Wait()
	searchWall := time.Since(start)

	// 3. violations: confirm, minimise, report
	sort.Slice(all, func(i, j int) bool { return all[i].Seed < all[j].Seed })
	var violations []*Result
	for _, r := range all {
		if r.Status == "violation" {
			violations = append(violations, r)
		}
	}
	reported := 0
	replayDir := filepath.Join(verifDir, "replays")
	handle := func(planFile string, first *Result) {
		// confirm in a fresh process (up to 3 attempts: some violations depend
		// on choices inside zenodb that no plan can pin, e.g. Go map order; a
		// violation that reproduces at least once is reported, one that never
		// reproduces is a harness problem)
		reproduces := func(file string, tag string) *Result {
			for attempt := 0; attempt < 3; attempt++ {
				r, err := runPlanFile(file, knownEnv, scratch, fmt.Sprintf("%s-%d-%d", tag, first.Seed, attempt))
				if err != nil {
					fatal2("replay: %v", err)
				}
				if first.Status == "crash" && r.Status == "crash" {
					return r
				}
				if r.Status == first.Status && r.Sig == first.Sig {
					return r
				}
				if attempt == 2 {
					fmt.Fprintf(os.Stderr, "replay of %s: expected %s/%s, last attempt gave %s/%s\n", file, first.Status, first.Sig, r.Status, r.Sig)
				}
			}
			return nil
		}
		r2 := reproduces(planFile, "confirm")
		if r2 == nil {
			fmt.Fprintf(os.Stderr, "NONDETERMINISM: seed %d gave %s/%s but 3 replays in fresh processes did not\n--- first\n%s\n", first.Seed, first.Status, first.Sig, first.Detail)
			exit = 2
			return
		}
		if first.Status == "crash" {
			first.Sig = r2.Sig
			first.Detail = r2.Detail
		}
		final := planFile
		minNote := ""
		if !*noMin && first.Status == "violation" {
			mf, n0, n1 := minimise(planFile, first.Sig, knownEnv, scratch, W)
			if mf != "" {
				if reproduces(mf, "minconfirm") != nil {
					final = mf
					minNote = fmt.Sprintf(" (minimised from %d to %d ops)", n0, n1)
				} else {
					minNote = " (not minimised: the minimised plan did not reproduce reliably)"
				}
			}
		}
		os.MkdirAll(replayDir, 0755)
		dst := filepath.Join(replayDir, fmt.Sprintf("%s-%d-%s.json", prop, first.Seed, sha8(first.Sig)))
		b, err := os.ReadFile(final)
		if err != nil {
			fatal2("%v", err)
		}
		if err := os.WriteFile(dst, b, 0644); err != nil {
			fatal2("%v", err)
		}
		r3 := reproduces(dst, "final")
		if r3 == nil {
			fmt.Fprintf(os.Stderr, "NONDETERMINISM: replay %s does not reproduce\n", dst)
			exit = 2
			return
		}
		fmt.Printf("violation %s seed=%d%s: %s\n", r3.Sig, first.Seed, minNote, firstLine(r3.Detail))
		fmt.Printf("VIOLATION property=%s replay=%s\n", prop, dst)
		reported++
		exit = 1
	}
	seenSig := map[string]bool{}
	for _, v := range violations {
		if seenSig[v.Sig] || reported >= 3 {
			continue
		}
		seenSig[v.Sig] = true
		if v.PlanFile == "" {
			fatal2("violation without plan file (seed %d)", v.Seed)
		}
		handle(v.PlanFile, v)
	}
	for _, s := range crashes {
		if reported >= 3 {
			break
		}
		// regenerate the plan for the crashing seed, then confirm
		out := filepath.Join(scratch, fmt.Sprintf("crash-%d.jsonl", s))
		runWorker([]string{"ZSIM_PROP=" + prop, "ZSIM_TIER=" + *tier, fmt.Sprintf("ZSIM_SEED_START=%d", s), "ZSIM_SEED_COUNT=1", "ZSIM_PLANDIR=" + planDir, "ZSIM_DUMPPLAN=1", "ZSIM_KNOWN=" + knownEnv}, out, 5*time.Minute)
		pf := filepath.Join(planDir, fmt.Sprintf("%s-%d.gen.json", prop, s))
		if _, err := os.Stat(pf); err != nil {
			fmt.Fprintf(os.Stderr, "worker crashed on seed %d and the plan could not be regenerated\n", s)
			exit = 2
			continue
		}
		handle(pf, &Result{Seed: s, Status: "crash", Sig: "crash", Detail: "output of the worker that died:\n" + crashLogs[s]})
	}
	if len(harnessErrs) > 0 && exit == 0 {
		for i, h := range harnessErrs {
			if i >= 3 {
				break
			}
			fmt.Fprintf(os.Stderr, "HARNESS ERROR seed=%d %s: %s\n", h.Seed, h.Sig, firstLines(h.Detail, 12))
		}
		exit = 2
	}

	// 4. evidence
	if err := writeEvidence(prop, meta, *tier, seed, all, known, time.Since(start), searchWall, reported, W); err != nil {
		fmt.Fprintf(os.Stderr, "evidence: %v\n", err)
		if exit == 0 {
			exit = 2
		}
	}
	okRuns := 0
	for _, r := range all {
		if r.Status == "ok" {
			okRuns++
		}
	}
	fmt.Printf("%s tier=%s seed=%d runs=%d ok=%d violations=%d wall=%.1fs\n", prop, *tier, seed, len(all), okRuns, len(violations)+len(crashes), time.Since(start).Seconds())
	if okRuns == 0 && exit == 0 {
		fmt.Fprintln(os.Stderr, "no successful run: treating as harness failure")
		exit = 2
	}
	os.RemoveAll(scratch)
	os.Exit(exit)
}

func firstLine(s string) string { return firstLines(s, 1) }
func firstLines(s string, n int) string {
	lines := strings.Split(s, "\n")
	if len(lines) > n {
		lines = lines[:n]
	}
	out := strings.Join(lines, "\n")
	if len(out) > 1500 {
		out = out[:1500] + "..."
	}
	return out
}
