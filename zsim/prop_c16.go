package zsim

import (
	"bytes"
	"context"
	"fmt"
	"github.com/getlantern/zenodb/core"
	"math"
	"net/http"
	"net/http/httptest"
	"path/filepath"
	"runtime/debug"
	"strings"
	"time"

	"github.com/getlantern/bytemap"
	"github.com/getlantern/zenodb"
	zsql "github.com/getlantern/zenodb/sql"
	"github.com/getlantern/zenodb/web"
)

func init() {
	register(&PropDef{ID: "C16", Gen: genC16, Exec: execC16, DeadlockIsViolation: true})
}

var c16Statements = []string{
	"DELETE FROM t0 WHERE da = 'a'", "INSERT INTO t0 (a) VALUES (1)", "UPDATE t0 SET a = 1", "SELECT f0 FROM t0 UNION SELECT f0 FROM t0",
	"SHOW TABLES", "SET x = 1", "CREATE TABLE x (a int)", "DROP TABLE t0", "ALTER TABLE t0 ADD COLUMN x int", "(SELECT * FROM t0)", "", ";", "SELECT",
	"SELECT * FROM", "SELECT * FROM t0 WHERE", "SELECT * FROM t0 GROUP BY", "SELECT * FROM nosuch", "SELECT nosuch FROM t0", "SELECT FOO(x) AS y FROM t0",
	"SELECT SUM() AS s FROM t0", "SELECT SUM(a, b, c) AS s FROM t0", "SELECT IF(da) AS s FROM t0", "SELECT BOUNDED(x) AS s FROM t0", "SELECT BOUNDED(x, 'a', 'b') AS s FROM t0",
	"SELECT PERCENTILE(x) AS s FROM t0", "SELECT PERCENTILE(x, 99) AS s FROM t0", "SELECT PERCENTILE(x, 99, 'a', 1000, 2) AS s FROM t0", "SELECT SHIFT(x) AS s FROM t0", "SELECT SHIFT(x, 'garbage') AS s FROM t0",
	"SELECT CROSSHIFT(x, '1s') AS s FROM t0", "SELECT CROSSHIFT(x, '0s', '1s') AS s FROM t0", "SELECT CROSSHIFT(*, '1s', '1s') AS s FROM t0", "SELECT SUM(*) AS s FROM t0", "SELECT IF(*, x) AS s FROM t0",
	"SELECT * FROM t0 GROUP BY LUA('s', 'k', 'a') AS l", "SELECT * FROM t0 GROUP BY LUA('s', ARRAY('k'), 1) AS l", "SELECT * FROM t0 GROUP BY LUA('s', ARRAY('k'), ARRAY('a')) AS l",
	"SELECT * FROM t0 GROUP BY HGET(1) AS h", "SELECT * FROM t0 GROUP BY SPLIT(da) AS h", "SELECT * FROM t0 GROUP BY SUBSTR(da, 1) AS h", "SELECT * FROM t0 GROUP BY ANY() AS h", "SELECT * FROM t0 GROUP BY CONCAT() AS h",
	"SELECT * FROM t0 GROUP BY period()", "SELECT * FROM t0 GROUP BY period('abc')", "SELECT * FROM t0 GROUP BY stride(5)", "SELECT * FROM t0 GROUP BY CROSSTAB()", "SELECT * FROM t0 GROUP BY CROSSTAB(da), CROSSTAB(db)",
	"SELECT * FROM t0 LIMIT 'x'", "SELECT * FROM t0 LIMIT 99999999999999999999", "SELECT * FROM t0 LIMIT -1", "SELECT * FROM t0 ASOF 'garbage'", "SELECT * FROM t0 ASOF '2000-13-45T00:00:00Z'", "SELECT * FROM t0 ASOF '-1s' UNTIL 'x'",
	"SELECT 1e999 AS x FROM t0", "SELECT * FROM t0 WHERE da = 'unterminated", "SELECT * FROM t0 WHERE da = \"dq\"", "SELECT * FROM `t0`", "SELECT * FROM t0 WHERE da IN (SELECT 1)", "SELECT * FROM t0 WHERE da IN (SELECT da, db FROM t0)",
	"SELECT * FROM t0 WHERE da IN (SELECT da FROM nosuch GROUP BY da)", "SELECT * FROM (DELETE FROM t0)", "SELECT * FROM (SELECT * FROM (SELECT * FROM t0))", "SELECT * FROM t0, t0", "SELECT * FROM t0 JOIN t0 ON a = b",
	"SELECT * FROM t0 WHERE da LIKE", "SELECT * FROM t0 WHERE da IS", "SELECT * FROM t0 WHERE NOT", "SELECT * FROM t0 WHERE da = (SELECT 1)", "SELECT * FROM t0 WHERE 1", "SELECT * FROM t0 WHERE da", "SELECT * FROM t0 HAVING", "SELECT * FROM t0 HAVING da",
	"SELECT * FROM t0 ORDER BY", "SELECT * FROM t0 ORDER BY 1", "SELECT * FROM t0 GROUP BY da AS", "SELECT f0 AS FROM t0", "SELECT f0 f1 f2 FROM t0", "SELECT * FROM t0 WHERE da = 'a' AND", "SELECT \x00 FROM t0", "SELECT * FROM t0 /* force_fresh",
	"SELECT `a\\` FROM t0 GROUP BY `b", "SELECT ``b FROM t0", "SELECT `a``b FROM t0", "SELECT `` FROM t0", "SELECT f0 FROM t0 WHERE da = `` AND db = 1", "SELECT `a\\` FROM t0", "SELECT * FROM t0 WHERE da = 'x\\' AND `b", "SELECT /* ' */ `a FROM t0", "SELECT /* ` */ f0 FROM t0", "SELECT -- ' \n `a FROM t0", "SELECT \"a\\\" FROM t0 GROUP BY `b", "SELECT 'a''b' AS x, `c FROM t0", "SELECT `a``b FROM t0", "SELECT * FROM t0 WHERE da = '\\'' AND `b",
	"SELECT * FROM t0 ASOF '-2s' UNTIL '-5s'", "SELECT f0 FROM t0 ASOF '-1s' UNTIL '-1s' GROUP BY da", "SELECT * FROM t0 ASOF '2000-01-01T00:00:30Z' UNTIL '2000-01-01T00:00:10Z'", "SELECT _points FROM t0 ASOF '-10s' UNTIL '-50s' GROUP BY _, period(5s)", "SELECT * FROM t0 ASOF '5s' UNTIL '-5s'", "SELECT * FROM t0 UNTIL '-100000h'", "SELECT * FROM t0 ASOF '100000h'",
	"SELECT AVG(SUM(x)) AS s FROM t0", "SELECT WAVG(x) AS s FROM t0", "SELECT WAVG(x, SUM(y)) AS s FROM t0", "SELECT LN() AS s FROM t0", "SELECT x + AS s FROM t0", "SELECT (x AS s FROM t0", "SELECT x) AS s FROM t0",
}

// every function name the SQL layer knows, with the arities it accepts when
// they need an external service (redis, geo/ISP databases) to evaluate: those
// well-formed calls are configuration matters, not malformed input
var c16Funcs = []string{"SUM", "MIN", "MAX", "COUNT", "AVG", "WAVG", "IF", "BOUNDED", "PERCENTILE", "SHIFT", "CROSSHIFT", "LN", "LOG2", "LOG10",
	"RAND", "CITY", "REGION", "REGION_CITY", "COUNTRY_CODE", "ISP", "ORG", "ASN", "ASNAME", "LEN", "HGET", "SISMEMBER", "SPLIT", "SUBSTR", "REPLACEALL", "LUA",
	"CONCAT", "CROSSTAB", "CROSSTABT", "ANY", "ARRAY", "DECODE", "PERIOD", "STRIDE", "NOSUCHFN"}

var c16NeedsService = map[string]int{"CITY": 1, "REGION": 1, "REGION_CITY": 1, "COUNTRY_CODE": 1, "ISP": 1, "ORG": 1, "ASN": 1, "ASNAME": 1, "HGET": 2, "SISMEMBER": 2, "LUA": 3}

var c16Args = []string{"x", "y", "da", "db", "f0", "99", "0", "-1", "1000", "2", "'a'", "'1s'", "'-1s'", "'garbage'", "*", "NULL", "SUM(x)", "AVG(y)", "x + 1", "da = 'a'", "ARRAY('k')", "ARRAY()", "(SELECT 1)", "1e999", "''", "1.5"}

var c16Canon = map[string][]string{
	"SUM": {"x"}, "MIN": {"x"}, "MAX": {"x"}, "COUNT": {"x"}, "AVG": {"x"}, "WAVG": {"x", "y"}, "IF": {"da = 'a'", "x"}, "BOUNDED": {"x", "0", "10"},
	"PERCENTILE": {"x", "99", "0", "1000", "2"}, "SHIFT": {"SUM(x)", "'-1s'"}, "CROSSHIFT": {"SUM(x)", "'-2s'", "'1s'"}, "LN": {"x"}, "LOG2": {"x"}, "LOG10": {"x"},
	"LEN": {"da"}, "SPLIT": {"da", "'a'", "0"}, "SUBSTR": {"da", "0", "1"}, "REPLACEALL": {"da", "'a'", "'b'"}, "CONCAT": {"'_'", "da", "db"}, "CROSSTAB": {"da", "db"}, "CROSSTABT": {"da"},
	"ANY": {"da", "db"}, "ARRAY": {"'a'", "'b'"}, "DECODE": {"da", "'a'", "'1'", "'2'"}, "PERIOD": {"'5s'"}, "STRIDE": {"'10s'"},
	"LUA": {"'return 1'", "ARRAY('k')", "ARRAY('a')"}, "HGET": {"'h'", "da"}, "SISMEMBER": {"'s'", "da"},
}

// genFnCall: a call of a known function with 0..6 arguments of arbitrary
// kinds, in one of the places where an expression may stand.
func genFnCall(r *Rng) string {
	fn := PickOne(r, c16Funcs)
	n := r.Intn(7)
	if k, ok := c16NeedsService[fn]; ok && n == k {
		n++
	}
	var args []string
	// well-typed arguments in the wrong number reach further into a
	// function's argument handling than arbitrary ones
	canon := c16Canon[fn]
	useCanon := len(canon) > 0 && r.Bool(0.6)
	for i := 0; i < n; i++ {
		if useCanon {
			args = append(args, canon[i%len(canon)])
		} else {
			args = append(args, PickOne(r, c16Args))
		}
	}
	call := fn + "(" + strings.Join(args, ", ") + ")"
	switch r.Intn(8) {
	case 0:
		return "SELECT " + call + " AS s FROM t0"
	case 1:
		return "SELECT " + PickOne(r, []string{"SUM", "AVG", "IF", "LN"}) + "(" + call + ") AS s FROM t0"
	case 2:
		return "SELECT * FROM t0 GROUP BY " + call + " AS g"
	case 3:
		return "SELECT * FROM t0 WHERE " + call + " = 'a'"
	case 4:
		return "SELECT * FROM t0 HAVING " + call + " > 1"
	case 5:
		return "SELECT IF(" + call + " = 1, x) AS s FROM t0"
	case 6:
		return "SELECT f0 FROM t0 GROUP BY da ORDER BY " + call
	default:
		return "SELECT " + call + " + " + call + " AS s, * FROM t0 GROUP BY " + call
	}
}

func mutateSQL(r *Rng, base string) string {
	toks := strings.Fields(base)
	if len(toks) == 0 {
		return PickOne(r, c16Statements)
	}
	switch r.Intn(12) {
	case 9, 10, 11:
		return genFnCall(r)
	case 0:
		return PickOne(r, c16Statements)
	case 1: // delete a token
		if len(toks) > 1 {
			i := r.Intn(len(toks))
			toks = append(toks[:i:i], toks[i+1:]...)
		}
	case 2: // duplicate a token
		i := r.Intn(len(toks))
		toks = append(toks[:i+1:i+1], toks[i:]...)
	case 3: // swap two tokens
		i, j := r.Intn(len(toks)), r.Intn(len(toks))
		toks[i], toks[j] = toks[j], toks[i]
	case 4: // truncate
		return base[:r.Intn(len(base)+1)]
	case 5: // replace a token by something odd
		toks[r.Intn(len(toks))] = PickOne(r, []string{"(", ")", ",", "'", "*", "NULL", "SELECT", "FROM", "''", "1e999", "-", "period(", "IN", "(SELECT", "`", "\\", "%", ";", "`a\\`", "``", "`a``b", "/*", "*/", "/* ' */", "--", "\\`", "'\\'"})
	case 6: // statement-type substitution
		toks[0] = PickOne(r, []string{"DELETE", "INSERT", "UPDATE", "SHOW", "SET", "EXPLAIN", "select"})
	case 7: // wrap
		return PickOne(r, []string{"SELECT * FROM (", "SELECT da FROM t0 WHERE da IN (", "("}) + base + PickOne(r, []string{")", "", "))"})
	case 8: // splice a statement fragment into the query
		s := PickOne(r, c16Statements)
		i := r.Intn(len(toks) + 1)
		toks = append(toks[:i:i], append(strings.Fields(s), toks[i:]...)...)
	}
	return strings.Join(toks, " ")
}

func genC16(seed uint64, tier string) *Plan {
	r := NewRng(seed, 16)
	u := genUniverse(r)
	u.NoConst = true
	p := &Plan{Prop: "C16", Seed: seed, World: "S+CL+W"}
	p.Cfg.Partitions = 2
	p.Cfg.Leaders = 1
	p.Cfg.FollowersPerPart = 1
	p.Cfg.CoalesceNanos = int64(time.Millisecond)
	p.Tables = genSchema(r, u, SchemaOpts{MaxTables: 1, RetMin: time.Hour, RetMax: 4 * time.Hour, Partition: true})
	span := int64(time.Minute)
	p.Ops = append(p.Ops, Op{K: "adv", Dt: int64(37 * time.Second)})
	o := AllQ
	o.DataSpan = span
	n := r.Range(4, 16)
	var pts []*Point
	for i := 0; i < n; i++ {
		// malformed traffic between valid points
		for k := 0; k < r.Range(0, 3); k++ {
			switch r.Intn(3) {
			case 0:
				p.Ops = append(p.Ops, Op{K: "payload", N: int64(r.Intn(nPayloadKinds)), N2: int64(r.Intn(1 << 30)), S: PickOne(r, []string{"S", "L", "W"})})
			default:
				base := genQuery(r, &p.Tables[0], u, o).SQL()
				nm := r.Range(1, 3)
				s := base
				for m := 0; m < nm; m++ {
					s = mutateSQL(r, s)
				}
				p.Ops = append(p.Ops, Op{K: "sql", S: s})
			}
		}
		pt := genPoint(r, u, p.Tables, PointOpts{SpanNanos: span, NoOdd: true}, pts, i)
		pts = append(pts, pt)
		if r.Bool(0.12) {
			// the valid point travels in an RPC insert stream to S next to a
			// malformed one (no dimensions / no values), which comes first or
			// in the middle of the stream
			st := Op{K: "rpcstream", Dt: PickOne(r, insDts[:4]), N: int64(r.Intn(2)), B: r.Bool(0.6)}
			st.Sub = append(st.Sub, Op{K: "ins", P: pt})
			for k := 0; k < r.Range(0, 2); k++ {
				i++
				n++
				pt2 := genPoint(r, u, p.Tables, PointOpts{SpanNanos: span, NoOdd: true}, pts, i)
				pts = append(pts, pt2)
				st.Sub = append(st.Sub, Op{K: "ins", P: pt2})
			}
			p.Ops = append(p.Ops, st)
			continue
		}
		p.Ops = append(p.Ops, Op{K: "ins", Dt: PickOne(r, insDts[:4]), P: pt})
	}
	p.Ops = append(p.Ops, Op{K: "check"})
	return p
}

const nPayloadKinds = 22

// recoverCall runs f and returns the panic value and stack, if any.
func recoverCall(f func()) (p interface{}, stack string) {
	defer func() {
		if r := recover(); r != nil {
			p = r
			stack = string(debug.Stack())
		}
	}()
	f()
	return nil, ""
}

func garbage(seed int64, n int) []byte {
	r := NewRng(uint64(seed), 99)
	b := make([]byte, n)
	for i := range b {
		b[i] = byte(r.Intn(256))
	}
	return b
}

type oddStruct struct{ A int }

// sendPayload sends one malformed / unusual insert to the target; it returns
// a description and the panic (if the call itself panicked).
func sendPayload(kind int, seed int64, target string, s *Node, l *Node, wf *WebFront) (string, interface{}, string) {
	now := time.Now().Add(-time.Second)
	db := s.DB
	if target == "L" {
		db = l.DB
	}
	goodDims := map[string]interface{}{"da": "a", "db": 1}
	goodVals := map[string]interface{}{"x": 1.0}
	var desc string
	var call func()
	ins := func(d string, dims, vals map[string]interface{}) {
		desc = d
		call = func() { db.Insert("inbound", now, dims, vals) }
	}
	raw := func(d string, dims, vals []byte) {
		desc = d
		call = func() { db.InsertRaw("inbound", now, bytemap.ByteMap(dims), bytemap.ByteMap(vals)) }
	}
	if target == "W" {
		bodies := []string{
			`{"dims":{},"vals":{}}`, `{"dims":{"da":null},"vals":{"x":1}}`, `{"dims":{"da":[1,2]},"vals":{"x":1}}`, `{"dims":{"da":{"n":1}},"vals":{"x":1}}`,
			`{"dims":{"da":"a"},"vals":{"x":"str"}}`, `{"dims":{"da":"a"},"vals":{"x":true}}`, `{"dims":{"da":"a"},"vals":{"x":null}}`, `{"dims":{"da":"a"},"vals":{"x":[1,2,3]}}`,
			`{"dims":{"da":"a"},"vals":{"x":[]}}`, `{"dims":{"da":"a"},"vals":{"x":{"deep":{"deeper":1}}}}`, `{"dims":{"da":"a"},"vals":{"x":1e308}}`, `{"ts":"garbage","dims":{"da":"a"},"vals":{"x":1}}`,
			`{"dims":{"da":"a"},"vals":{"x":1}} {"dims":`, `[1,2,3]`, `"just a string"`, `{"dims":"notamap","vals":{"x":1}}`, `{"dims":{"":""},"vals":{"":0}}`, `{"dims":{"da":"a"},"vals":{"x":1}}{"dims":{"da":"b"},"vals":{"x":"s"}}`,
			`{"dims":{"da":"` + strings.Repeat("k", 70000) + `"},"vals":{"x":1}}`, `null`, ``, `{"dims":{"da":1.5e300},"vals":{"x":-0}}`,
		}
		body := bodies[kind%len(bodies)]
		desc = "POST /insert/inbound " + truncStr(body, 80)
		call = func() {
			req := httptest.NewRequest(http.MethodPost, "http://zeno.test/insert/inbound", bytes.NewReader([]byte(body)))
			req.Header.Set("Content-Type", "application/json")
			wf.Router.ServeHTTP(httptest.NewRecorder(), req)
		}
	} else {
		switch kind {
		case 0:
			ins("empty dims and vals", map[string]interface{}{}, map[string]interface{}{})
		case 1:
			ins("nil maps", nil, nil)
		case 2:
			ins("nil dim value", map[string]interface{}{"da": nil, "db": 1}, goodVals)
		case 3:
			ins("slice as dim value", map[string]interface{}{"da": []int{1, 2}}, goodVals)
		case 4:
			ins("map as dim value", map[string]interface{}{"da": map[string]interface{}{"n": 1}}, goodVals)
		case 5:
			ins("struct as dim value", map[string]interface{}{"da": oddStruct{1}}, goodVals)
		case 6:
			ins("small int types as dims", map[string]interface{}{"da": int8(1), "db": uint16(2), "dc": float32(1.5), "dd": uint64(7)}, goodVals)
		case 7:
			ins("time and bytes as dims", map[string]interface{}{"da": time.Unix(0, 0), "db": []byte("x")}, goodVals)
		case 8:
			ins("string/bool/nil values only", goodDims, map[string]interface{}{"x": "s", "y": true, "z": nil})
		case 9:
			ins("NaN and Inf values", goodDims, map[string]interface{}{"x": math.NaN(), "y": math.Inf(1), "z": math.Inf(-1)})
		case 10:
			ins("empty float array value", goodDims, map[string]interface{}{"x": []float64{}})
		case 11:
			ins("empty int array value", goodDims, map[string]interface{}{"x": []int{}})
		case 12:
			ins("array values", goodDims, map[string]interface{}{"x": []float64{1, 2, 3}, "y": []int{4, 5}})
		case 13:
			ins("struct as value", goodDims, map[string]interface{}{"x": oddStruct{2}})
		case 14:
			ins("float32 / uint values", goodDims, map[string]interface{}{"x": float32(1), "y": uint(3), "z": int64(4)})
		case 15:
			raw("garbage dims bytes", garbage(seed, 1+int(seed%40)), bytemap.New(goodVals))
		case 16:
			raw("garbage vals bytes", bytemap.New(goodDims), garbage(seed, 1+int(seed%40)))
		case 17:
			d := bytemap.New(goodDims)
			raw("truncated dims bytemap", d[:len(d)/2], bytemap.New(goodVals))
		case 18:
			v := bytemap.New(goodVals)
			raw("truncated vals bytemap", bytemap.New(goodDims), v[:len(v)-3])
		case 19:
			raw("empty raw maps", nil, nil)
		case 20:
			desc = "unknown stream"
			call = func() { db.Insert("nosuchstream", now, goodDims, goodVals) }
		default:
			ins("huge dim value", map[string]interface{}{"da": strings.Repeat("k", 70000)}, goodVals)
		}
	}
	p, st := recoverCall(call)
	return fmt.Sprintf("%s -> %s", target, desc), p, st
}

func truncStr(s string, n int) string {
	if len(s) > n {
		return s[:n] + "..."
	}
	return s
}

func execC16(e *Env, p *Plan) error {
	c, err := NewCluster(e, p)
	if err != nil {
		return err
	}
	cfg := p.Cfg
	s, err := e.OpenNode("S", filepath.Join(e.Root, "S"), dbOpts(&cfg), p.Tables)
	if err != nil {
		return err
	}
	d, err := e.OpenNode("D", filepath.Join(e.Root, "D"), dbOpts(&cfg), p.Tables)
	if err != nil {
		return err
	}
	wf, err := NewWebFront(e, s.DB, "w", &web.Opts{})
	if err != nil {
		return err
	}
	defer wf.stop()
	leader := c.Leaders[0].N
	for i := range p.Ops {
		op := &p.Ops[i]
		stepDt(e, op)
		switch op.K {
		case "ins":
			for _, n := range []*Node{s, d, leader} {
				if err := n.Insert(op.P); err != nil {
					return fmt.Errorf("valid insert failed: %v", err)
				}
				time.Sleep(time.Microsecond)
			}
			e.Count("op.ins")
		case "sql":
			sqlString := op.S
			type target struct {
				name string
				f    func()
			}
			for _, t := range []target{
				{"sql.Parse", func() { zsql.Parse(sqlString) }},
				{"sql.TableFor", func() { zsql.TableFor(sqlString) }},
				// (planning only: the property says "return an error or a plan".
				// Running the plans of mutated statements was tried - see
				// runPlanBounded and DESIGN 9.8, S16c - and is left out.)
				{"DB.Query (standalone)", func() { s.DB.Query(sqlString, false, nil, true) }},
				{"DB.Query (cluster leader)", func() { leader.DB.Query(sqlString, false, nil, true) }},
				{"DB.Query as subquery", func() { s.DB.Query(sqlString, true, nil, false) }},
			} {
				if pv, st := recoverCall(t.f); pv != nil {
					class := sqlClass(sqlString)
					if e.Known("C16-" + class) {
						continue
					}
					return &Violation{"sql-panic:" + class, fmt.Sprintf("%s(%q) panicked: %v\n%s", t.name, sqlString, pv, firstFrames(st, 8))}
				}
			}
			e.Count("op.sql")
			e.Count("nontrivial")
		case "rpcstream":
			pn := NewPipeNet()
			addr := fmt.Sprintf("s%d:17712", i)
			stopRPC := pn.ServeRPC(s.DB, addr, 0, "")
			client, derr := pn.DialRPC(addr, "")
			if derr != nil {
				stopRPC()
				return fmt.Errorf("dial: %v", derr)
			}
			stream := op.Sub[0].P.Stream
			ins, nerr := client.NewInserter(context.Background(), stream)
			if nerr != nil {
				return fmt.Errorf("new inserter: %v", nerr)
			}
			bad := func() {
				ts := op.Sub[0].P.Time()
				if op.N == 0 {
					ins.Insert(ts, map[string]interface{}{}, func(cb func(string, interface{})) { cb("x", 1.0) })
				} else {
					ins.Insert(ts, map[string]interface{}{"da": "a"}, func(cb func(string, interface{})) {})
				}
				e.Count("probe.rpc-malformed-point")
			}
			if op.B {
				bad()
			}
			for k := range op.Sub {
				pt := op.Sub[k].P
				// (errors of the stream are not the point: what counts is whether
				// the valid points arrive, which "check" decides)
				ins.Insert(pt.Time(), kvMap(pt.Dims), func(cb func(string, interface{})) {
					kvs := append([]KV(nil), pt.Vals...)
					sortKVs(kvs)
					for _, kv := range kvs {
						cb(kv.N, kv.V.Go())
					}
				})
				if !op.B && k == 0 {
					bad()
				}
				for _, n := range []*Node{d, leader} {
					if err := n.Insert(pt); err != nil {
						return fmt.Errorf("valid insert failed: %v", err)
					}
					time.Sleep(time.Microsecond)
				}
				e.Count("op.ins")
			}
			ins.Close()
			client.Close()
			stopRPC()
			e.Count("op.rpcstream")
		case "payload":
			desc, pv, st := sendPayload(int(op.N), op.N2, op.S, s, leader, wf)
			e.Logf("payload %s", desc)
			e.Count("op.payload." + op.S)
			if pv != nil {
				return &Violation{"insert-panic", fmt.Sprintf("insert payload [%s] panicked in the caller: %v\n%s", desc, pv, firstFrames(st, 8))}
			}
		case "check":
			// the pipelines must still be alive: every valid point is ingested
			// (standalone) and replicated (cluster)
			clusterSettle(e, c)
			if v := e.AsyncViolation(); v != nil {
				return v
			}
			for ti := range p.Tables {
				t := &p.Tables[ti]
				want, err := dumpPointsValid(d, t.Name)
				if err != nil {
					return &Violation{"query-error", err.Error()}
				}
				got, err := dumpPointsValid(s, t.Name)
				if err != nil {
					return &Violation{"query-error", err.Error()}
				}
				if missing := missingKeys(want, got); missing != "" {
					return &Violation{"standalone-pipeline-stalled", fmt.Sprintf("after malformed traffic the standalone node no longer ingests valid points: table %s lacks %s", t.Name, missing)}
				}
			}
			deadline := time.Now().Add(5 * time.Minute)
			var v *Violation
			for {
				v = checkRoutingSuperset(e, c, d, p)
				if v == nil || time.Now().After(deadline) {
					break
				}
				e.Sleep(5 * time.Second)
			}
			if v != nil {
				return v
			}
		}
		e.Sleep(0)
	}
	c.CloseAll()
	s.Abandon()
	d.Abandon()
	return nil
}

func sqlClass(s string) string {
	u := strings.ToUpper(strings.TrimSpace(s))
	switch {
	case strings.Contains(u, "LUA("):
		return "lua-scalar-arguments"
	case !strings.HasPrefix(u, "SELECT") || strings.Contains(u, "UNION"):
		return "non-select-statement"
	}
	return "other"
}

// dumpPointsValid is dumpPoints restricted to the keys of valid points (the
// malformed payloads that happen to be accepted add rows of their own).
func dumpPointsValid(n *Node, table string) (map[string]float64, error) {
	return dumpPoints(n, table)
}

func missingKeys(want, got map[string]float64) string {
	var miss []string
	for k, v := range want {
		if got[k] < v {
			miss = append(miss, fmt.Sprintf("%s (has %v of %v points)", k, got[k], v))
		}
	}
	if len(miss) == 0 {
		return ""
	}
	if len(miss) > 5 {
		miss = append(miss[:5], "...")
	}
	return strings.Join(miss, "; ")
}

// checkRoutingSuperset: the partitions together hold at least D's (valid)
// points.
func checkRoutingSuperset(e *Env, c *Cluster, d *Node, p *Plan) *Violation {
	for ti := range p.Tables {
		t := &p.Tables[ti]
		want, err := dumpPoints(d, t.Name)
		if err != nil {
			return &Violation{"query-error", err.Error()}
		}
		got := map[string]float64{}
		for _, f := range c.Followers {
			if !f.Up {
				continue
			}
			m, err := dumpPoints(f.N, t.Name)
			if err != nil {
				return &Violation{"query-error", err.Error()}
			}
			for k, v := range m {
				got[k] += v
			}
		}
		if missing := missingKeys(want, got); missing != "" {
			return &Violation{"replication-stalled", fmt.Sprintf("5 simulated minutes after malformed traffic through the leader, valid points are still not replicated: table %s lacks %s", t.Name, missing)}
		}
	}
	return nil
}

var _ = zenodb.DefaultMaxFollowQueue

// runPlanBounded (not used by the registered check) plans the statement and, if that yields a plan, runs it under
// a deadline of five simulated seconds: a plan must be runnable (rows or an
// error), a run that spins is caught by the watchdog.
func runPlanBounded(e *Env, db *zenodb.DB, sqlString string) {
	src, err := db.Query(sqlString, false, nil, true)
	if err != nil || src == nil {
		return
	}
	ctx, cancel := context.WithTimeout(context.Background(), 5*time.Second)
	defer cancel()
	n := 0
	src.Iterate(ctx, func(fields core.Fields) error { return nil }, func(row *core.FlatRow) (bool, error) {
		n++
		return n < 5000, nil
	})
	e.Count("probe.plan-executed")
}
