package zsim

import (
	"fmt"
	"sort"
	"strings"
	"time"
)

func init() {
	register(&PropDef{ID: "C06", Gen: genC06, Exec: execC06})
}

// selItem encodings: "f:<name>", "p" (_points), "r:<a>:<op>:<b>:<as>".
func selSQL(items []string) string {
	var parts []string
	for _, it := range items {
		f := strings.Split(it, ":")
		switch f[0] {
		case "f":
			parts = append(parts, f[1])
		case "p":
			parts = append(parts, "_points")
		case "r":
			parts = append(parts, fmt.Sprintf("%s %s %s AS %s", f[1], f[2], f[3], f[4]))
		}
	}
	return strings.Join(parts, ", ")
}

// selDefs returns name -> model expression for the select items.
func selDefs(items []string) (names []string, defs map[string]*FieldExpr) {
	defs = map[string]*FieldExpr{}
	for _, it := range items {
		f := strings.Split(it, ":")
		switch f[0] {
		case "f":
			names = append(names, f[1])
			defs[f[1]] = &FieldExpr{Kind: "ref", Ref: f[1]}
		case "p":
			names = append(names, "_points")
		case "r":
			names = append(names, f[4])
			defs[f[4]] = &FieldExpr{Kind: "bin", Op: f[2], L: &FieldExpr{Kind: "ref", Ref: f[1]}, R: &FieldExpr{Kind: "ref", Ref: f[3]}}
		}
	}
	return
}

func genGroupedQuery(r *Rng, t *TableDef, u *Universe) Op {
	// only fields the reference model can evaluate (SHIFT fields, for
	// instance, report their values in other periods)
	var names []string
	for _, f := range t.Fields {
		if exprModelled(t, f.E) {
			names = append(names, f.Name)
		}
	}
	var items []string
	if r.Bool(0.7) {
		items = append(items, "p")
	}
	for _, n := range names {
		if r.Bool(0.6) {
			items = append(items, "f:"+n)
		}
	}
	if r.Bool(0.4) && len(names) > 0 {
		items = append(items, fmt.Sprintf("r:%s:%s:%s:g0", PickOne(r, names), PickOne(r, []string{"/", "+", "-", "*"}), PickOne(r, names)))
	}
	if len(items) == 0 {
		items = []string{"p"}
	}
	var dims []string
	switch r.Intn(5) {
	case 0:
		dims = []string{"_"}
	case 1:
		dims = []string{"*"}
	default:
		for _, d := range dimNames(u) {
			if r.Bool(0.45) {
				dims = append(dims, d)
			}
		}
		if len(dims) == 0 {
			dims = []string{"_"}
		}
	}
	k := int64(PickOne(r, []int{0, 1, 2, 3, 5, 7, 13, 100000}))
	return Op{K: "gq", S: t.Name, Strs: dims, S2: strings.Join(items, ","), N: k, B: r.Bool(0.8)}
}

func genC06(seed uint64, tier string) *Plan {
	r := NewRng(seed, 6)
	u := genUniverse(r)
	p := &Plan{Prop: "C06", Seed: seed, World: "S"}
	p.Cfg.CoalesceNanos = int64(time.Millisecond)
	span := int64(PickOne(r, []time.Duration{8 * time.Second, 40 * time.Second, 4 * time.Minute}))
	genDataset(r, p, u, SchemaOpts{MaxTables: 2, RetMin: 40 * time.Minute, RetMax: 3 * time.Hour}, 3, 60, span, 0.08, 0.08)
	if r.Bool(0.04) {
		// two fields that zenodb cannot tell apart: the same expression under
		// two names, or AVG(x) next to WAVG(x, w) (both print as AVG(x))
		t := &p.Tables[0]
		if r.Bool(0.5) {
			t.Fields = append(t.Fields, FieldDef{Name: "fdup1", E: &FieldExpr{Kind: "agg", Fn: "SUM", X: "y"}}, FieldDef{Name: "fdup2", E: &FieldExpr{Kind: "agg", Fn: "SUM", X: "y"}})
		} else {
			t.Fields = append(t.Fields, FieldDef{Name: "fdup1", E: &FieldExpr{Kind: "agg", Fn: "AVG", X: "z"}}, FieldDef{Name: "fdup2", E: &FieldExpr{Kind: "agg", Fn: "WAVG", X: "z", W: "w"}})
		}
		p.Cfg.Extra = map[string]int64{"dupexpr": 1}
	}
	nq := r.Range(2, 8)
	for i := 0; i < nq; i++ {
		t := &p.Tables[r.Intn(len(p.Tables))]
		// clock position relative to the period boundary
		gq := genGroupedQuery(r, t, u)
		gq.Sub = []Op{{K: "align", N: PickOne(r, []int64{0, 1, -1, int64(time.Millisecond), -int64(time.Millisecond), t.ResNanos / 2, r.Int64N(t.ResNanos)}), N2: t.ResNanos}}
		if r.Bool(0.4) {
			// an explicit window inside the data span, so that the oldest
			// output period of a non-divisor period is partial AND holds points
			sec := int64(time.Second)
			until := -r.Int64N(span/2+1) / sec * sec
			asOf := until - (1+r.Int64N(span))/sec*sec - sec
			gq.Sub = append(gq.Sub, Op{K: "window", N: asOf, N2: until})
		}
		p.Ops = append(p.Ops, gq)
	}
	return p
}

// alignClock sleeps until the simulated clock is at (multiple of res) + off.
func alignClock(e *Env, off, res int64) {
	now := time.Now().UnixNano()
	target := CeilTo(now, res) + off
	for target <= now {
		target += res
	}
	e.Sleep(time.Duration(target - now))
}

// projectKey projects the table's group key of a point onto the query's
// grouping.
func projectKey(t *TableDef, dims []string, p *Point) []KV {
	tk := GroupKey(t.GroupBy, p.Dims)
	if len(dims) == 1 && dims[0] == "*" {
		return tk
	}
	if len(dims) == 1 && dims[0] == "_" {
		return nil
	}
	var out []KV
	for _, d := range dims {
		if v, ok := kvGet(tk, d); ok {
			out = append(out, KV{d, v})
		}
	}
	return out
}

// checkGrouped compares a grouped/bucketed result with the reference model.
// window: (asOf, until], bucket width P, all absolute nanos.
func checkGrouped(e *Env, mt *MTable, q *QResult, dims []string, items []string, sql string) *Violation {
	t := mt.Def
	asOf, until, P := q.AsOf, q.Until, q.Res
	if P <= 0 {
		return &Violation{"bad-resolution", fmt.Sprintf("%q reports resolution %d", sql, P)}
	}
	names, defs := selDefs(items)
	type bucket struct {
		key string
		ts  int64
		pts []*Point
	}
	exp := map[string]*bucket{}
	inWindow := 0
	for _, pt := range mt.Accepted {
		E := CeilTo(BaseNanos+pt.TS, t.ResNanos)
		if E <= asOf || E > until {
			continue
		}
		inWindow++
		T := until - ((until-E)/P)*P
		k := CanonKey(projectKey(t, dims, pt))
		id := fmt.Sprintf("%s@%d", k, T)
		b := exp[id]
		if b == nil {
			b = &bucket{key: k, ts: T}
			exp[id] = b
		}
		b.pts = append(b.pts, pt)
	}
	seen := map[string]bool{}
	pointsCovered := 0
	pi := q.Field("_points")
	for i := range q.Rows {
		r := &q.Rows[i]
		id := fmt.Sprintf("%s@%d", r.Key, r.TS)
		if seen[id] {
			return &Violation{"overlapping-rows", fmt.Sprintf("%q returned two rows for key [%s] period %v", sql, r.Key, time.Duration(r.TS-BaseNanos))}
		}
		seen[id] = true
		if (until-r.TS)%P != 0 || r.TS > until || r.TS <= asOf-P {
			return &Violation{"misaligned-period", fmt.Sprintf("%q (window (%v, %v], period %v) returned a row at %v", sql, time.Duration(asOf-BaseNanos), time.Duration(until-BaseNanos), time.Duration(P), time.Duration(r.TS-BaseNanos))}
		}
		b := exp[id]
		if b == nil {
			if tableHasConstBin(t) || selHasConstLike(items) {
				e.Count("tolerated.gap-row-const")
				continue
			}
			return &Violation{"unexpected-row", fmt.Sprintf("%q returned row %s but no accepted point has a group key projecting onto [%s] and a native period end in (%v, %v]", sql, rowLine(q.Fields, r), r.Key, time.Duration(r.TS-P-BaseNanos), time.Duration(r.TS-BaseNanos))}
		}
		pointsCovered += len(b.pts)
		for fi, fname := range q.Fields {
			got := r.Vals[fi]
			if fname == "_points" {
				if got != float64(len(b.pts)) {
					return &Violation{"points-mismatch", fmt.Sprintf("%q row %s: _points=%v but %d accepted points (%s) fall into this key and period (%v, %v]", sql, rowLine(q.Fields, r), got, len(b.pts), ptIDs(b.pts), time.Duration(r.TS-P-BaseNanos), time.Duration(r.TS-BaseNanos))}
				}
				continue
			}
			def := defs[fname]
			if def == nil {
				continue
			}
			fv := EvalField(t, def, b.pts)
			if fv.Undef || !exprModelled(t, def) {
				continue
			}
			want := 0.0
			if fv.Found {
				want = fv.V
			}
			if !floatClose(got, want) && e.Plan.Cfg.Extra["dupexpr"] > 0 && t.field("fdup1") != nil {
				if e.Known("C06-indistinguishable-fields") {
					continue
				}
				return &Violation{"indistinguishable-fields", fmt.Sprintf("table %s has two fields that print alike (%s / %s); %q row %s: %s = %v, reference = %v", t.Name, t.field("fdup1").E.SQL(), t.field("fdup2").E.SQL(), sql, rowLine(q.Fields, r), fname, got, want)}
			}
			if !floatClose(got, want) {
				if a, w := avgWavgClash(t); a != "" {
					// the same finding without the planted fields: AVG(x) and
					// WAVG(x, w) meet somewhere inside the table's expressions
					if e.Known("C06-indistinguishable-fields") {
						continue
					}
					return &Violation{"indistinguishable-fields", fmt.Sprintf("table %s uses both %s and %s, which print alike; %q row %s: %s = %v, reference = %v", t.Name, a, w, sql, rowLine(q.Fields, r), fname, got, want)}
				}
			}
			if !floatClose(got, want) {
				return &Violation{"value-mismatch", fmt.Sprintf("%q row %s: %s = %v, reference over the raw points %s of period (%v, %v] = %v", sql, rowLine(q.Fields, r), fname, got, ptIDs(b.pts), time.Duration(r.TS-P-BaseNanos), time.Duration(r.TS-BaseNanos), want)}
			}
		}
	}
	_ = pi
	ids := make([]string, 0, len(exp))
	for id := range exp {
		ids = append(ids, id)
	}
	sort.Strings(ids)
	for _, id := range ids {
		if !seen[id] {
			b := exp[id]
			// a bucket in which no selected field has a value is not reported
			required := false
			undecided := false
			for _, name := range names {
				if name == "_points" {
					required = true
					break
				}
				def := defs[name]
				if def == nil || !exprModelled(t, def) {
					undecided = true
					break
				}
				fv := EvalField(t, def, b.pts)
				if fv.Undef {
					undecided = true
					break
				}
				if fv.Found {
					required = true
				}
			}
			if undecided || !required {
				continue
			}
			return &Violation{"missing-row", fmt.Sprintf("%q (window (%v, %v], period %v): no row for key [%s] period ending %v although accepted points %s belong there", sql, time.Duration(asOf-BaseNanos), time.Duration(until-BaseNanos), time.Duration(P), b.key, time.Duration(b.ts-BaseNanos), ptIDs(b.pts))}
		}
	}
	if inWindow > 0 {
		e.Count("nontrivial")
	}
	return nil
}

func selHasConstLike(items []string) bool { return false }

// exprModelled reports whether every field the expression refers to can be
// evaluated by the model.
func exprModelled(t *TableDef, e *FieldExpr) bool {
	if e == nil {
		return true
	}
	switch e.Kind {
	case "raw":
		return false
	case "ref":
		if f := t.field(e.Ref); f != nil && !(f.E.Kind == "ref" && f.E.Ref == e.Ref) {
			return exprModelled(t, f.E)
		}
		return true
	case "bin":
		return exprModelled(t, e.L) && exprModelled(t, e.R)
	case "if":
		return exprModelled(t, e.Sub)
	}
	return true
}

func groupedSQL(op *Op, t *TableDef, extra string) string {
	sql := "SELECT " + selSQL(strings.Split(op.S2, ",")) + " FROM " + op.S + extra + " GROUP BY " + strings.Join(op.Strs, ", ")
	if op.N > 0 {
		sql += ", period(" + durSQL(time.Duration(t.ResNanos*op.N)) + ")"
	}
	return sql
}

func execC06(e *Env, p *Plan) error {
	n, err := openStandalone(e, p, "n0")
	if err != nil {
		return err
	}
	m := NewModel(p.Tables)
	for i := range p.Ops {
		op := &p.Ops[i]
		stepDt(e, op)
		switch op.K {
		case "ins":
			if err := n.Insert(op.P); err != nil {
				return err
			}
			m.Offer(op.P, minInt64)
		case "flush":
			n.DB.FlushAll()
		case "align":
			e.Settle()
			alignClock(e, op.N, op.N2)
			continue // the query must run at exactly this instant
		case "gq":
			e.Settle()
			if len(op.Sub) > 0 {
				alignClock(e, op.Sub[0].N, op.Sub[0].N2)
			}
			mt := m.Tables[op.S]
			extra := ""
			if len(op.Sub) > 1 && op.Sub[1].K == "window" {
				extra = fmt.Sprintf(" ASOF '%s' UNTIL '%s'", absTime(op.Sub[1].N), absTime(op.Sub[1].N2))
				e.Count("probe.explicit-window")
			}
			sql := groupedSQL(op, mt.Def, extra)
			q := n.Query(sql, QOpts{IncludeMem: op.B})
			if q.Panicked {
				return &Violation{"panic-in-query", fmt.Sprintf("%q: %v", sql, q.Err)}
			}
			if q.Err != nil {
				e.Count("q.error")
				e.Logf("gq %q error", sql)
				break
			}
			e.Logf("gq %q rows=%d", sql, len(q.Rows))
			if !op.B {
				// without the memstore only flushed points are visible: the
				// model cannot know the split, so only structural checks apply
				e.Count("q.disk-only")
				break
			}
			if len(op.Sub) > 1 && op.Sub[1].K == "window" {
				// the window the query reports (and the comparison below works
				// with) must not be narrower than the one that was asked for,
				// up to the table's period grid and its retention
				res := mt.Def.ResNanos
				reqAsOf, reqUntil := BaseNanos+op.Sub[1].N, BaseNanos+op.Sub[1].N2
				lo := CeilTo(reqAsOf, res)
				if rl := CeilTo(time.Now().UnixNano()-mt.Def.RetNanos, res); rl > lo {
					lo = rl
				}
				hi := CeilTo(reqUntil, res)
				if hi > reqUntil {
					hi -= res
				}
				if q.AsOf > lo || q.Until < hi {
					return &Violation{"window-narrower-than-requested", fmt.Sprintf("%q reports the window (%v, %v] although (%v, %v] was asked for (table resolution %v)", sql, time.Duration(q.AsOf-BaseNanos), time.Duration(q.Until-BaseNanos), time.Duration(reqAsOf-BaseNanos), time.Duration(reqUntil-BaseNanos), time.Duration(res))}
				}
			}
			if v := checkGrouped(e, mt, q, op.Strs, strings.Split(op.S2, ","), sql); v != nil {
				return v
			}
		}
		e.Sleep(0)
	}
	n.Close()
	return nil
}

// avgWavgClash reports an AVG(x) and a WAVG(x, w) over the same value that
// occur anywhere in the table's field expressions (zenodb prints both as
// AVG(x) and matches columns by that text).
func avgWavgClash(t *TableDef) (string, string) {
	avg, wavg := map[string]bool{}, map[string]string{}
	var walk func(e *FieldExpr)
	walk = func(e *FieldExpr) {
		if e == nil {
			return
		}
		switch e.Kind {
		case "agg":
			if e.Fn == "AVG" && !e.Bnd {
				avg[e.X] = true
			}
			if e.Fn == "WAVG" && !e.Bnd {
				wavg[e.X] = e.W
			}
		case "ref":
			if f := t.field(e.Ref); f != nil && !(f.E.Kind == "ref" && f.E.Ref == e.Ref) {
				walk(f.E)
			}
		}
		walk(e.L)
		walk(e.R)
		walk(e.Sub)
	}
	for i := range t.Fields {
		walk(t.Fields[i].E)
	}
	for x, w := range wavg {
		if avg[x] {
			return "AVG(" + x + ")", "WAVG(" + x + ", " + w + ")"
		}
	}
	return "", ""
}
