package zsim

import (
	"context"
	"crypto/sha256"
	"encoding/hex"
	"fmt"
	"hash/fnv"
	"io"
	"os"
	"path/filepath"
	"runtime/debug"
	"sort"
	"strings"
	"sync"
	"testing/synctest"
	"time"

	"github.com/getlantern/zenodb"
	"github.com/getlantern/zenodb/common"
	"github.com/getlantern/zenodb/core"
	"github.com/getlantern/zenodb/simhook"
)

// Violation is raised by oracles.
type Violation struct {
	Sig    string
	Detail string
}

func (v *Violation) Error() string { return v.Sig + ": " + v.Detail }

// Env is the simulator state of one run.
type Env struct {
	Plan   *Plan
	Root   string
	mu     sync.Mutex
	nodes  map[*zenodb.DB]*Node
	all    []*Node
	Counts map[string]int
	log    []string
	adj    map[string]bool
	prev   map[*zenodb.DB]string
	tape   int
	start  time.Time
	gen    int

	crash *CrashArm
	fail  *FailArm
	mem   map[*zenodb.DB]uint64

	// Violation recorded asynchronously (e.g. unexpected db.Panic).
	asyncViolation *Violation

	// OnPoint lets a property observe hook sites (called with mu released).
	OnPoint func(n *Node, site, table string)
}

// CrashArm arms a crash at the nth hit (1-based) of site on node.
type CrashArm struct {
	Node  string
	Site  string
	Nth   int
	seen  int
	Fired bool
}

// FailArm arms an injected error at the nth hit of a Fail site.
type FailArm struct {
	Node  string
	Site  string
	Nth   int
	seen  int
	Fired bool
}

// Node is one database instance (one generation of a logical node).
type Node struct {
	Name    string
	DB      *zenodb.DB
	Dir     string
	env     *Env
	Dead    bool
	Crashed bool   // a crash image was taken; this instance is a zombie
	Image   string // directory holding the crash image
	Opts    *zenodb.DBOpts
	Tables  []TableDef
	hits    map[string]int
	hitsT   map[string]int
	closed  bool
	// closeFn replaces DB.Close for nodes that are whole servers
	closeFn func()

	pendingMemOK int
}

var curEnv *Env

// sites at which the yield layer may pause (none of them holds a lock)
var yieldSites = map[string]bool{"ins.tableRecv": true, "rs.applied": true, "rs.fieldUpdate": true, "flush.begin": true, "flush.headerWritten": true, "flush.bodyDone": true, "flush.renamed": true, "flush.swapped": true, "offs.begin": true, "scan.snapshotTaken": true, "gc.beforeRemove": true}
var yieldPauses = []time.Duration{time.Microsecond, 40 * time.Microsecond, time.Millisecond, 3 * time.Millisecond}

func init() {
	simhook.PointFn = func(site string, owner interface{}, table string) {
		if e := curEnv; e != nil {
			e.onPoint(site, owner, table)
		}
	}
	simhook.FailFn = func(site string, owner interface{}, table string) error {
		if e := curEnv; e != nil {
			return e.onFail(site, owner, table)
		}
		return nil
	}
}

func NewEnv(plan *Plan, root string) *Env {
	e := &Env{Plan: plan, Root: root, nodes: map[*zenodb.DB]*Node{}, Counts: map[string]int{}, adj: map[string]bool{}, prev: map[*zenodb.DB]string{}, start: time.Now()}
	os.MkdirAll(filepath.Join(root, "tmp"), 0755)
	os.Setenv("TMPDIR", filepath.Join(root, "tmp"))
	curEnv = e
	return e
}

func (e *Env) Done() { curEnv = nil; simhook.Reset() }

// Known reports whether the named finding is listed in the committed
// known-findings file (passed down by the runner in ZSIM_KNOWN). A listed
// finding is counted (known.<id>) instead of failing the run, so that other
// violations of the same property are still reported.
func (e *Env) Known(id string) bool {
	for _, k := range strings.Split(os.Getenv("ZSIM_KNOWN"), ",") {
		if k == id {
			e.Count("known." + id)
			return true
		}
	}
	return false
}

func (e *Env) Count(k string) { e.mu.Lock(); e.Counts[k]++; e.mu.Unlock() }
func (e *Env) CountN(k string, n int) {
	e.mu.Lock()
	e.Counts[k] += n
	e.mu.Unlock()
}

// Logf appends a line to the event log (never draws randomness, never reads
// a real clock).
func (e *Env) Logf(format string, args ...interface{}) {
	e.mu.Lock()
	e.log = append(e.log, fmt.Sprintf(format, args...))
	e.mu.Unlock()
}

func (e *Env) LogSHA() string {
	e.mu.Lock()
	defer e.mu.Unlock()
	h := sha256.New()
	for _, l := range e.log {
		io.WriteString(h, l)
		io.WriteString(h, "\n")
	}
	// (hook-site hit counts are not part of the canonical log: in multi-node
	// worlds two events of the same simulated instant - an entry arriving and a
	// flush timer firing - may be taken in either order by the Go scheduler,
	// which changes how many rows a flush writes but nothing a client can see;
	// they go into the separate trace hash used for the distinctness measure)
	return hex.EncodeToString(h.Sum(nil))
}

// TraceSHA hashes the hook-site hit counts.
func (e *Env) TraceSHA() string {
	e.mu.Lock()
	defer e.mu.Unlock()
	h := sha256.New()
	keys := make([]string, 0, len(e.Counts))
	for k := range e.Counts {
		if strings.HasPrefix(k, "site.") {
			keys = append(keys, k)
		}
	}
	sort.Strings(keys)
	for _, k := range keys {
		fmt.Fprintf(h, "%s=%d\n", k, e.Counts[k])
	}
	return hex.EncodeToString(h.Sum(nil))
}

func (e *Env) LogLines() []string {
	e.mu.Lock()
	defer e.mu.Unlock()
	return append([]string(nil), e.log...)
}

// Adjacencies returns the number of distinct site->site pairs observed.
func (e *Env) Adjacencies() []string {
	e.mu.Lock()
	defer e.mu.Unlock()
	out := make([]string, 0, len(e.adj))
	for k := range e.adj {
		out = append(out, k)
	}
	sort.Strings(out)
	return out
}

// TapeNext returns the next dynamic choice (0 when the tape is exhausted).
func (e *Env) TapeNext() int {
	if e.tape < len(e.Plan.Tape) {
		v := int(e.Plan.Tape[e.tape])
		e.tape++
		return v
	}
	return 0
}

func (e *Env) SimElapsed() time.Duration { return time.Since(e.start) }

func (e *Env) onPoint(site string, owner interface{}, table string) {
	db, _ := owner.(*zenodb.DB)
	e.mu.Lock()
	n := e.nodes[db]
	if n == nil {
		e.mu.Unlock()
		return
	}
	base := site
	if strings.HasPrefix(site, "scan.coalesced.") {
		base = "scan.coalesced"
		e.Counts["coalesce."+site[len("scan.coalesced."):]]++
	}
	e.Counts["site."+base]++
	n.hits[base]++
	if p, ok := e.prev[db]; ok {
		e.adj[p+">"+base] = true
	}
	e.prev[db] = base
	var doCrash bool
	if c := e.crash; c != nil && !c.Fired && c.Node == n.Name && c.Site == base && !n.Crashed {
		c.seen++
		if c.seen == c.Nth {
			c.Fired = true
			doCrash = true
		}
	}
	cb := e.OnPoint
	// yield layer: a seeded pause at some passes of some sites (a function of
	// seed, node, site, table and occurrence only) lets the other goroutines of
	// the bubble overtake this one
	var pause time.Duration
	if rate := e.Plan.Cfg.Extra["yield"]; rate > 0 && yieldSites[base] && !n.Crashed {
		k := base + "/" + table
		if n.hitsT == nil {
			n.hitsT = map[string]int{}
		}
		n.hitsT[k]++
		h := fnv.New64a()
		fmt.Fprintf(h, "%d|%s|%s|%d", e.Plan.Seed, n.Name, k, n.hitsT[k])
		v := h.Sum64()
		if int64(v%1000) < rate {
			pause = yieldPauses[(v>>20)%uint64(len(yieldPauses))]
			e.Counts["yield."+base]++
		}
	}
	e.mu.Unlock()
	if doCrash {
		e.crashNow(n, "site:"+base+":"+table)
	}
	if pause > 0 {
		time.Sleep(pause)
	}
	if cb != nil {
		cb(n, base, table)
	}
}

func (e *Env) onFail(site string, owner interface{}, table string) error {
	db, _ := owner.(*zenodb.DB)
	e.mu.Lock()
	defer e.mu.Unlock()
	n := e.nodes[db]
	if n == nil {
		return nil
	}
	e.Counts["failsite."+site]++
	if f := e.fail; f != nil && !f.Fired && f.Node == n.Name && f.Site == site && !n.Crashed {
		f.seen++
		if f.seen == f.Nth {
			f.Fired = true
			e.Counts["fault.ioerr."+site]++
			return fmt.Errorf("simulated I/O error at %s (ENOSPC)", site)
		}
	}
	return nil
}

// crashNow takes the crash image of n: a copy of its directory as of this
// instant. The instance keeps running as a disconnected zombie.
func (e *Env) crashNow(n *Node, why string) {
	e.mu.Lock()
	if n.Crashed {
		e.mu.Unlock()
		return
	}
	e.gen++
	img := filepath.Join(e.Root, fmt.Sprintf("%s-img%d", n.Name, e.gen))
	n.Crashed = true
	n.Image = img
	e.Counts["fault.crash"]++
	e.Counts["fault.crash."+strings.SplitN(why, ":", 3)[0]]++
	e.log = append(e.log, fmt.Sprintf("crash %s %s", n.Name, why))
	e.mu.Unlock()
	if err := copyDir(n.Dir, img); err != nil {
		panic(fmt.Sprintf("harness: crash image copy failed: %v", err))
	}
}

func copyDir(src, dst string) error {
	return filepath.Walk(src, func(path string, info os.FileInfo, err error) error {
		if err != nil {
			if os.IsNotExist(err) {
				return nil
			}
			return err
		}
		rel, _ := filepath.Rel(src, path)
		target := filepath.Join(dst, rel)
		if info.IsDir() {
			return os.MkdirAll(target, 0755)
		}
		b, err := os.ReadFile(path)
		if err != nil {
			if os.IsNotExist(err) {
				return nil
			}
			return err
		}
		return os.WriteFile(target, b, 0644)
	})
}

// OpenNode starts a database instance on dir and creates the tables.
func (e *Env) OpenNode(name, dir string, opts *zenodb.DBOpts, tables []TableDef) (*Node, error) {
	n := &Node{Name: name, Dir: dir, env: e, Opts: opts, Tables: tables, hits: map[string]int{}}
	opts.Dir = dir
	userPanic := opts.Panic
	opts.Panic = func(err interface{}) {
		if userPanic != nil {
			userPanic(err)
			return
		}
		e.onDBPanic(n, err)
	}
	db, err := zenodb.NewDB(opts)
	if err != nil {
		return nil, err
	}
	n.DB = db
	e.mu.Lock()
	e.nodes[db] = n
	e.all = append(e.all, n)
	e.mu.Unlock()
	for i := range tables {
		if err := n.CreateTable(&tables[i]); err != nil {
			return n, fmt.Errorf("create table %s: %v", tables[i].Name, err)
		}
	}
	return n, nil
}

func tableOpts(t *TableDef) *zenodb.TableOpts {
	return &zenodb.TableOpts{
		Name:            t.Name,
		View:            t.View,
		MinFlushLatency: time.Duration(t.MinFlush),
		MaxFlushLatency: time.Duration(t.MaxFlush),
		RetentionPeriod: t.Ret(),
		Backfill:        time.Duration(t.Backfill),
		PartitionBy:     append([]string(nil), t.PartitionBy...),
		SQL:             t.SQL(),
	}
}

func (n *Node) CreateTable(t *TableDef) error {
	return n.DB.CreateTable(tableOpts(t))
}

// onDBPanic handles db.Panic: if a fault was injected the node has "crashed"
// at this instant (image taken, zombie continues); otherwise it is a genuine
// failure of the system under test.
func (e *Env) onDBPanic(n *Node, err interface{}) {
	e.mu.Lock()
	injected := e.fail != nil && e.fail.Fired && e.fail.Node == n.Name
	e.mu.Unlock()
	if injected || n.Crashed {
		e.crashNow(n, fmt.Sprintf("ioerr:%v", err))
		return
	}
	e.mu.Lock()
	if e.asyncViolation == nil {
		e.asyncViolation = &Violation{Sig: "db-panic", Detail: fmt.Sprintf("node %s called db.Panic without an injected fault: %v", n.Name, err)}
	}
	e.mu.Unlock()
}

func (e *Env) setAsync(v *Violation) {
	e.mu.Lock()
	if e.asyncViolation == nil {
		e.asyncViolation = v
	}
	e.mu.Unlock()
}

func (e *Env) AsyncViolation() *Violation {
	e.mu.Lock()
	defer e.mu.Unlock()
	return e.asyncViolation
}

// Sleep advances simulated time by d and waits for quiescence.
func (e *Env) Sleep(d time.Duration) {
	if d > 0 {
		time.Sleep(d)
	}
	synctest.Wait()
}

// Settle lets every WAL reader poll (50 ms) and the pipelines drain.
func (e *Env) Settle() {
	for i := 0; i < 3; i++ {
		e.Sleep(60 * time.Millisecond)
	}
}

func (n *Node) Insert(p *Point) error {
	return n.DB.Insert(p.Stream, p.Time(), kvMap(p.Dims), kvMap(p.Vals))
}

func (n *Node) Close() {
	if n.closed {
		return
	}
	n.closed = true
	// DB.Close waits for every background task; a table's insert loop that is
	// blocked handing an entry to its row store after the row store has
	// stopped never ends (observed with the yield layer; not one of the listed
	// properties). An operator would kill the process after a grace period:
	// so does the harness, after 30 simulated seconds.
	done := make(chan struct{})
	go func() {
		defer close(done)
		if n.closeFn != nil {
			n.closeFn()
		} else {
			n.DB.Close()
		}
	}()
	select {
	case <-done:
	case <-time.After(30 * time.Second):
		n.env.Count("probe.close-hung")
	}
	synctest.Wait()
}

// Abandon closes a zombie in the background.
func (n *Node) Abandon() {
	if n.closed {
		return
	}
	n.closed = true
	if n.closeFn != nil {
		go n.closeFn()
		return
	}
	go n.DB.Close()
}

// ---------------------------------------------------------------------------
// Queries

type QRow struct {
	TS     int64
	Key    string
	KeyKVs []KV
	Vals   []float64
}

type QResult struct {
	SQL    string
	Fields []string
	Rows   []QRow
	Stats  *common.QueryStats
	AsOf   int64
	Until  int64
	Res    int64
	Err    error
	// PlanErr is set when planning failed (Err is then also set).
	PlanErr bool
	// Panicked is set when planning or executing the query panicked in the
	// calling goroutine (Err then carries the panic value and stack).
	Panicked bool
}

type QOpts struct {
	IncludeMem bool
	Ctx        context.Context
	// OnRow is called after each delivered row with its index; returning
	// false stops the scan.
	OnRow func(i int, row *QRow) bool
	// ErrAt > 0: the consumer fails with an error of its own when it receives
	// its ErrAt-th row
	ErrAt int
}

var errConsumer = fmt.Errorf("simulated consumer failure")

func keyKVs(m map[string]interface{}) []KV {
	kvs := make([]KV, 0, len(m))
	for k, v := range m {
		kvs = append(kvs, KV{k, ValFromGo(v)})
	}
	sort.Slice(kvs, func(i, j int) bool { return kvs[i].N < kvs[j].N })
	return kvs
}

// Query runs sql on the node and collects the rows in delivery order.
func (n *Node) Query(sql string, o QOpts) *QResult {
	return QueryDB(n.DB, sql, o)
}

// Prepared is a planned query (window and bucket anchors are fixed at
// planning time).
type Prepared struct {
	res *QResult
	src core.FlatRowSource
}

func (n *Node) Prepare(sql string, includeMem bool) *Prepared {
	return PrepareDB(n.DB, sql, includeMem)
}

func PrepareDB(db *zenodb.DB, sql string, includeMem bool) (p *Prepared) {
	p = &Prepared{res: &QResult{SQL: sql}}
	defer func() {
		if r := recover(); r != nil {
			p.res.Panicked = true
			p.res.Err = fmt.Errorf("panic: %v\n%s", r, debug.Stack())
		}
	}()
	src, err := db.Query(sql, false, nil, includeMem)
	if err != nil {
		p.res.Err = err
		p.res.PlanErr = true
		return p
	}
	p.src = src
	p.res.AsOf = src.GetAsOf().UnixNano()
	p.res.Until = src.GetUntil().UnixNano()
	p.res.Res = int64(src.GetResolution())
	return p
}

// Run executes the prepared query and collects the rows in delivery order.
func (p *Prepared) Run(o QOpts) (res *QResult) {
	res = p.res
	if p.src == nil {
		return res
	}
	defer func() {
		if r := recover(); r != nil {
			res.Panicked = true
			res.Err = fmt.Errorf("panic: %v\n%s", r, debug.Stack())
		}
	}()
	ctx := o.Ctx
	if ctx == nil {
		ctx = context.Background()
	}
	i := 0
	md, err := p.src.Iterate(ctx, func(fields core.Fields) error {
		res.Fields = fields.Names()
		return nil
	}, func(row *core.FlatRow) (bool, error) {
		kvs := keyKVs(row.Key.AsMap())
		r := QRow{TS: row.TS, KeyKVs: kvs, Key: CanonKey(kvs), Vals: append([]float64(nil), row.Values...)}
		res.Rows = append(res.Rows, r)
		more := true
		if o.OnRow != nil {
			more = o.OnRow(i, &r)
		}
		i++
		if o.ErrAt > 0 && i >= o.ErrAt {
			return false, errConsumer
		}
		return more, nil
	})
	res.Err = err
	if qs, ok := md.(*common.QueryStats); ok {
		res.Stats = qs
	}
	return res
}

func QueryDB(db *zenodb.DB, sql string, o QOpts) *QResult {
	return PrepareDB(db, sql, o.IncludeMem).Run(o)
}

// Canon renders the rows as a sorted multiset of lines.
func (q *QResult) Canon() []string {
	lines := make([]string, 0, len(q.Rows))
	for _, r := range q.Rows {
		lines = append(lines, rowLine(q.Fields, &r))
	}
	sort.Strings(lines)
	return lines
}

func rowLine(fields []string, r *QRow) string {
	var sb strings.Builder
	fmt.Fprintf(&sb, "%d [%s]", r.TS-BaseNanos, r.Key)
	for i, v := range r.Vals {
		name := "?"
		if i < len(fields) {
			name = fields[i]
		}
		fmt.Fprintf(&sb, " %s=%.9g", name, v)
	}
	return sb.String()
}

// Field returns the index of the named field, or -1.
func (q *QResult) Field(name string) int {
	for i, f := range q.Fields {
		if f == name {
			return i
		}
	}
	return -1
}

// ---------------------------------------------------------------------------
// Restart / memory pressure

// RestartClean closes the node and opens a new instance on the same directory.
func (e *Env) RestartClean(n *Node, opts *zenodb.DBOpts, tables []TableDef) (*Node, error) {
	n.Close()
	e.Sleep(2 * time.Millisecond)
	e.Count("fault.restart.clean")
	return e.OpenNode(n.Name, n.Dir, opts, tables)
}

// RestartFromImage abandons the (crashed) node and opens a new instance on
// its crash image.
func (e *Env) RestartFromImage(n *Node, opts *zenodb.DBOpts, tables []TableDef) (*Node, error) {
	if !n.Crashed {
		return nil, fmt.Errorf("node %s has no crash image", n.Name)
	}
	n.Dead = true
	n.Abandon()
	e.Sleep(2 * time.Millisecond)
	e.Count("fault.restart.image")
	return e.OpenNode(n.Name, n.Image, opts, tables)
}

// SetMemory makes the node's process-memory reading (hook H5) report v bytes
// (0 = real reading).
func (e *Env) SetMemory(n *Node, v uint64) {
	e.mu.Lock()
	if e.mem == nil {
		e.mem = map[*zenodb.DB]uint64{}
	}
	e.mem[n.DB] = v
	e.mu.Unlock()
}

func init() {
	simhook.MemoryFn = func(owner interface{}, actual uint64) uint64 {
		e := curEnv
		if e == nil {
			return actual
		}
		db, _ := owner.(*zenodb.DB)
		e.mu.Lock()
		defer e.mu.Unlock()
		if v, ok := e.mem[db]; ok && v > 0 {
			return v
		}
		// never let the real heap size be an input of the simulation
		return 1 << 20
	}
}

// WaitProcessed waits (up to two simulated minutes) until every table of the
// node has accounted for n more points than its statistics showed before
// (inserted, filtered or dropped).
func (e *Env) WaitProcessed(n *Node, before map[string]int64, count int64) {
	for i := 0; i < 240; i++ {
		done := true
		for _, name := range n.DB.SimTableNames() {
			if processedPoints(n, name)-before[name] < count {
				done = false
			}
		}
		if done {
			return
		}
		e.Sleep(500 * time.Millisecond)
	}
	e.Count("probe.wait-processed-timeout")
}

func processedPoints(n *Node, table string) int64 {
	st := n.DB.TableStats(table)
	return st.InsertedPoints + st.FilteredPoints + st.DroppedPoints
}

// ProcessedSnapshot records the per-table counters for WaitProcessed.
func (e *Env) ProcessedSnapshot(n *Node) map[string]int64 {
	out := map[string]int64{}
	for _, name := range n.DB.SimTableNames() {
		out[name] = processedPoints(n, name)
	}
	return out
}
