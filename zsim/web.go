package zsim

// World W: the real web handler (web.Configure on a gorilla router) driven
// through Router.ServeHTTP with recorded responses; GitHub is a stub behind
// hook H6.

import (
	"bytes"
	"compress/gzip"
	"encoding/json"
	"fmt"
	"io"
	"net/http"
	"net/http/httptest"
	"net/url"
	"path/filepath"
	"strings"
	"sync"
	"time"

	"github.com/getlantern/zenodb"
	"github.com/getlantern/zenodb/simhook"
	"github.com/getlantern/zenodb/web"
	"github.com/gorilla/mux"
)

type WebFront struct {
	Router *mux.Router
	stop   func()
}

func NewWebFront(e *Env, db *zenodb.DB, name string, opts *web.Opts) (*WebFront, error) {
	r := mux.NewRouter()
	if opts.CacheDir == "" {
		opts.CacheDir = filepath.Join(e.Root, name+"-webcache")
	}
	stop, err := web.Configure(db, r, opts)
	if err != nil {
		return nil, err
	}
	return &WebFront{Router: r, stop: stop}, nil
}

type HTTPResp struct {
	Code   int
	Header http.Header
	Body   []byte
	Result *web.QueryResult
}

// Get issues GET path?rawQuery with the given headers and cookies.
func (w *WebFront) Get(path, rawQuery string, hdr map[string]string, cookies []*http.Cookie) *HTTPResp {
	u := "http://zeno.test" + path
	if rawQuery != "" {
		u += "?" + url.QueryEscape(rawQuery)
	}
	req := httptest.NewRequest(http.MethodGet, u, nil)
	for k, v := range hdr {
		req.Header.Set(k, v)
	}
	for _, c := range cookies {
		req.AddCookie(c)
	}
	rec := httptest.NewRecorder()
	w.Router.ServeHTTP(rec, req)
	out := &HTTPResp{Code: rec.Code, Header: rec.Header(), Body: rec.Body.Bytes()}
	if rec.Code == http.StatusOK && rec.Header().Get("Content-Encoding") == "gzip" {
		if gr, err := gzip.NewReader(bytes.NewReader(out.Body)); err == nil {
			if b, err := io.ReadAll(gr); err == nil {
				qr := &web.QueryResult{}
				if json.Unmarshal(b, qr) == nil {
					out.Result = qr
				}
			}
		}
	}
	return out
}

// AsQResult converts a decoded HTTP result to the common row form (TS in
// nanoseconds rounded to milliseconds, as the web API reports).
func (r *HTTPResp) AsQResult(sql string) *QResult {
	q := &QResult{SQL: sql}
	if r.Result == nil {
		return q
	}
	q.Fields = r.Result.Fields
	for _, row := range r.Result.Rows {
		kvs := make([]KV, 0, len(row.Key))
		for k, v := range row.Key {
			kvs = append(kvs, KV{k, jsonVal(v)})
		}
		q.Rows = append(q.Rows, QRow{TS: row.TS * int64(time.Millisecond), KeyKVs: kvs, Key: CanonKey(kvs), Vals: row.Vals})
	}
	return q
}

// jsonVal maps a JSON-decoded key value to a Val (JSON has one number type).
func jsonVal(v interface{}) Val {
	switch t := v.(type) {
	case float64:
		return FloatV(t)
	case string:
		return StrV(t)
	case bool:
		return BoolV(t)
	case nil:
		return NilV()
	}
	return StrV(fmt.Sprint(v))
}

// jsonKeyCanon renders a key the way it looks after a JSON round trip.
func jsonKeyCanon(kvs []KV) string {
	out := make([]KV, len(kvs))
	for i, kv := range kvs {
		out[i] = kv
		if kv.V.K == "i" {
			out[i].V = FloatV(float64(kv.V.I))
		}
	}
	return CanonKey(out)
}

// ---------------------------------------------------------------------------
// GitHub stub (hook H6)

type GitHubStub struct {
	mu      sync.Mutex
	Mode    string // member, notmember, error500, unreachable, slow
	Org     string
	Calls   int
	SlowFor time.Duration
}

func (g *GitHubStub) RoundTrip(req *http.Request) (*http.Response, error) {
	g.mu.Lock()
	g.Calls++
	mode, org, slow := g.Mode, g.Org, g.SlowFor
	g.mu.Unlock()
	mk := func(code int, body string) *http.Response {
		return &http.Response{StatusCode: code, Status: fmt.Sprint(code), Body: io.NopCloser(strings.NewReader(body)), Header: http.Header{"Content-Type": []string{"application/json"}}, Request: req}
	}
	switch mode {
	case "unreachable":
		return nil, fmt.Errorf("simulated network error reaching %s", req.URL.Host)
	case "error500":
		return mk(500, `{"message":"boom"}`), nil
	case "slow":
		time.Sleep(slow)
	}
	if strings.Contains(req.URL.Path, "/user/orgs") {
		if mode == "notmember" {
			return mk(200, `[{"login":"someone-else"}]`), nil
		}
		return mk(200, fmt.Sprintf(`[{"login":%q}]`, org)), nil
	}
	if strings.Contains(req.URL.Path, "access_token") {
		return mk(200, `{"access_token":"tok-123"}`), nil
	}
	return mk(404, `{}`), nil
}

var curGitHub *GitHubStub

func init() {
	simhook.HTTPTransportFn = func() http.RoundTripper {
		if g := curGitHub; g != nil {
			return g
		}
		return nil
	}
}
