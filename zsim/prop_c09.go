package zsim

import (
	"fmt"
	"sort"
	"strings"
	"time"
)

func init() {
	register(&PropDef{ID: "C09", Gen: genC09, Exec: execC09})
}

func genC09(seed uint64, tier string) *Plan {
	r := NewRng(seed, 9)
	u := genUniverse(r)
	for i := range u.Dims {
		if u.Dims[i].Name == "dd" {
			// integers that float64 cannot tell apart
			u.Dims[i].Domain = append(u.Dims[i].Domain, IntV(9007199254740993), IntV(9007199254740992), IntV(1<<60+1), IntV(1<<60+2), IntV(-(1<<60)-1))
		}
	}
	p := &Plan{Prop: "C09", Seed: seed, World: "S"}
	p.Cfg.CoalesceNanos = int64(time.Millisecond)
	span := int64(PickOne(r, []time.Duration{6 * time.Second, 40 * time.Second, 3 * time.Minute}))
	genDataset(r, p, u, SchemaOpts{MaxTables: 2, RetMin: 40 * time.Minute, RetMax: 3 * time.Hour}, 2, 40, span, 0.08, 0.08)
	bulk := false
	if t0 := &p.Tables[0]; r.Bool(0.1) && (len(t0.GroupBy) == 0 || strings.Contains(","+strings.Join(t0.GroupBy, ",")+",", ",da,")) {
		// a result of more than a thousand rows: sorters may buffer in bounded
		// memory, LIMIT/OFFSET must still slice the complete order
		bulk = true
		p.Ops = append(p.Ops, Op{K: "bulk", Dt: 1000, N: int64(r.Range(1100, 2600)), S: t0.Stream})
	}
	nq := r.Range(2, 6)
	for i := 0; i < nq; i++ {
		t := &p.Tables[r.Intn(len(p.Tables))]
		if bulk {
			t = &p.Tables[0]
		}
		o := QGenOpts{Group: true, Where: true, DataSpan: span}
		base := genQuery(r, t, u, o)
		// key list: 1-4 keys over fields, dims and _time in every position
		names := selNames(base.Sel, t)
		cands := append(append([]string{"_time", "_time"}, names...), dimNames(u)...)
		nk := r.Range(1, 4)
		var keys []OrderKey
		seen := map[string]bool{}
		for k := 0; k < nk; k++ {
			c := PickOne(r, cands)
			if seen[c] {
				continue
			}
			seen[c] = true
			keys = append(keys, OrderKey{c, r.Bool(0.4)})
		}
		var ks []string
		for _, k := range keys {
			s := k.Field
			if k.Desc {
				s += " DESC"
			}
			ks = append(ks, s)
		}
		lim := int64(PickOne(r, []int{0, 1, 2, 3, 5, 8, 1000}))
		off := int64(PickOne(r, []int{0, 0, 1, 2, 4, 50}))
		if bulk {
			lim = int64(PickOne(r, []int{1, 3, 8, 40}))
			off = int64(PickOne(r, []int{0, 1, 25, 50, 1050}))
		}
		p.Ops = append(p.Ops, Op{K: "oq", Dt: PickOne(r, insDts), S: base.SQL(), Strs: ks, N: lim, N2: off, B: r.Bool(0.8)})
	}
	return p
}

// cmpKey compares two rows on one ORDER BY key. ok=false: the two values are
// not comparable by any rule the property fixes (different types, NaN).
func cmpKey(q *QResult, a, b *QRow, key string, nilFirst bool) (int, bool) {
	if key == "_time" {
		switch {
		case a.TS < b.TS:
			return -1, true
		case a.TS > b.TS:
			return 1, true
		}
		return 0, true
	}
	if i := q.Field(key); i >= 0 {
		x, y := a.Vals[i], b.Vals[i]
		if x != x || y != y {
			return 0, false
		}
		switch {
		case x < y:
			return -1, true
		case x > y:
			return 1, true
		}
		return 0, true
	}
	va, oka := kvGet(a.KeyKVs, key)
	vb, okb := kvGet(b.KeyKVs, key)
	if !oka && !okb {
		return 0, true
	}
	if !oka || !okb {
		c := -1
		if oka {
			c = 1
		}
		if !nilFirst {
			c = -c
		}
		return c, true
	}
	if va.K != vb.K {
		return 0, false
	}
	c, ok := cmpVals(va, vb)
	return c, ok
}

// cmpRows compares on the key list; ok=false when an incomparable pair is hit
// before the order is decided.
func cmpRows(q *QResult, a, b *QRow, keys []OrderKey, nilFirst bool) (int, bool) {
	for _, k := range keys {
		x, y := a, b
		if k.Desc {
			x, y = b, a
		}
		c, ok := cmpKey(q, x, y, k.Field, nilFirst)
		if !ok {
			return 0, false
		}
		if c != 0 {
			return c, true
		}
	}
	return 0, true
}

func keyTuple(q *QResult, r *QRow, keys []OrderKey) string {
	var parts []string
	for _, k := range keys {
		if k.Field == "_time" {
			parts = append(parts, fmt.Sprint(r.TS-BaseNanos))
		} else if i := q.Field(k.Field); i >= 0 {
			parts = append(parts, fmt.Sprintf("%.9g", r.Vals[i]))
		} else if v, ok := kvGet(r.KeyKVs, k.Field); ok {
			parts = append(parts, v.Canon())
		} else {
			parts = append(parts, "<nil>")
		}
	}
	return strings.Join(parts, "|")
}

func multiset(q *QResult) map[string]int {
	m := map[string]int{}
	for i := range q.Rows {
		m[rowLine(q.Fields, &q.Rows[i])]++
	}
	return m
}

func execC09(e *Env, p *Plan) error {
	n, err := openStandalone(e, p, "n0")
	if err != nil {
		return err
	}
	for i := range p.Ops {
		op := &p.Ops[i]
		stepDt(e, op)
		switch op.K {
		case "ins":
			if err := n.Insert(op.P); err != nil {
				return err
			}
		case "flush":
			n.DB.FlushAll()
		case "bulk":
			now := time.Now()
			before := e.ProcessedSnapshot(n)
			for k := 0; k < int(op.N); k++ {
				dims := map[string]interface{}{"da": fmt.Sprintf("k%05d", (k*7919)%100000), "db": k % 7, "dc": k%3 == 0}
				vals := map[string]interface{}{"x": float64((k * 104729) % 1000), "y": float64(k % 11), "z": float64(k%5) + 0.5, "w": 1.0}
				if err := n.DB.Insert(op.S, now.Add(-time.Duration(k%30)*time.Second), dims, vals); err != nil {
					return err
				}
			}
			// (only tables on that stream move; views and tables of other
			// streams are not waited for)
			for name := range before {
				if t := p.table(name); t == nil || t.Stream != op.S {
					delete(before, name)
				}
			}
			waitTables(e, n, before, op.N)
			e.Settle()
			e.Count("probe.bulk-rows")
		case "oq":
			e.Settle()
			var keys []OrderKey
			for _, s := range op.Strs {
				if strings.HasSuffix(s, " DESC") {
					keys = append(keys, OrderKey{strings.TrimSuffix(s, " DESC"), true})
				} else {
					keys = append(keys, OrderKey{s, false})
				}
			}
			orderSQL := op.S + " ORDER BY " + strings.Join(op.Strs, ", ")
			limSQL := orderSQL
			plainLimSQL := op.S
			if op.N2 > 0 {
				limSQL += fmt.Sprintf(" LIMIT %d, %d", op.N2, op.N)
				plainLimSQL += fmt.Sprintf(" LIMIT %d, %d", op.N2, op.N)
			} else {
				limSQL += fmt.Sprintf(" LIMIT %d", op.N)
				plainLimSQL += fmt.Sprintf(" LIMIT %d", op.N)
			}
			if !op.B {
				// disk-only queries: a timer flush between two of the four
				// queries would legitimately change what is on disk
				n.DB.FlushAll()
				e.Sleep(time.Millisecond)
			}
			pu, po, pl, pp := n.Prepare(op.S, op.B), n.Prepare(orderSQL, op.B), n.Prepare(limSQL, op.B), n.Prepare(plainLimSQL, op.B)
			U, O, L, PL := pu.Run(QOpts{}), po.Run(QOpts{}), pl.Run(QOpts{}), pp.Run(QOpts{})
			for _, q := range []*QResult{U, O, L, PL} {
				if q.Panicked {
					if e.Known("C09-sort-panics-on-mixed-types") {
						goto next
					}
					return &Violation{"panic-in-query", fmt.Sprintf("%q panicked: %v", q.SQL, q.Err)}
				}
			}
			if U.Err != nil {
				e.Count("q.error")
				if O.Err == nil || L.Err == nil {
					return &Violation{"error-mismatch", fmt.Sprintf("%q fails (%v) but succeeds with ORDER BY/LIMIT", op.S, U.Err)}
				}
				goto next
			}
			if O.Err != nil || L.Err != nil || PL.Err != nil {
				return &Violation{"error-mismatch", fmt.Sprintf("%q succeeds but fails with ORDER BY/LIMIT: %v / %v / %v", op.S, O.Err, L.Err, PL.Err)}
			}
			e.Logf("oq %q keys=%v rows=%d", op.S, op.Strs, len(U.Rows))
			if len(U.Rows) > 1 {
				e.Count("nontrivial")
			}
			{
				// 1. ORDER BY returns the same multiset
				mu, mo := multiset(U), multiset(O)
				if len(U.Rows) != len(O.Rows) || !sameMultiset(mu, mo) {
					return &Violation{"order-changes-rows", fmt.Sprintf("%q returns %d rows, with ORDER BY %v it returns %d rows or different rows", op.S, len(U.Rows), op.Strs, len(O.Rows))}
				}
				// 2. sortedness (NULL placement is not fixed: either end). A NaN
				// among the values of a key field leaves the order undefined for
				// the whole result (no comparison with NaN is true, so a sort has
				// no total order to establish): such results are skipped
				for _, k := range keys {
					if fi := O.Field(k.Field); fi >= 0 {
						for ri := range O.Rows {
							if v := O.Rows[ri].Vals[fi]; v != v {
								e.Count("skipped.nan-in-order-key")
								goto next
							}
						}
					}
				}
				okAny := false
				var firstBad string
				for _, nilFirst := range []bool{true, false} {
					ok := true
					for k := 1; k < len(O.Rows); k++ {
						c, cmpOK := cmpRows(O, &O.Rows[k-1], &O.Rows[k], keys, nilFirst)
						if cmpOK && c > 0 {
							ok = false
							if firstBad == "" {
								firstBad = fmt.Sprintf("row %d (%s) [%s] is followed by row %d (%s) [%s]", k-1, keyTuple(O, &O.Rows[k-1], keys), rowLine(O.Fields, &O.Rows[k-1]), k, keyTuple(O, &O.Rows[k], keys), rowLine(O.Fields, &O.Rows[k]))
							}
							break
						}
					}
					if ok {
						okAny = true
					}
				}
				if !okAny {
					sig := "not-sorted"
					if hasTimeNotLast(keys) {
						if e.Known("C09-time-key-not-last") {
							goto next
						}
						sig = "not-sorted-time-key"
					}
					return &Violation{sig, fmt.Sprintf("%q ORDER BY %v is not sorted: %s", op.S, op.Strs, firstBad)}
				}
				// 3. LIMIT/OFFSET slice the ordered result
				nU := len(U.Rows)
				want := nU - int(op.N2)
				if want < 0 {
					want = 0
				}
				if int(op.N) < want {
					want = int(op.N)
				}
				if op.N == 0 {
					if len(L.Rows) != 0 || len(PL.Rows) != 0 {
						if e.Known("C09-limit-zero-ignored") {
							goto next
						}
						return &Violation{"limit-zero", fmt.Sprintf("%q returned %d rows (ordered) / %d rows (unordered) for LIMIT 0", limSQL, len(L.Rows), len(PL.Rows))}
					}
					goto next
				}
				if len(L.Rows) != want {
					return &Violation{"limit-count", fmt.Sprintf("%q returned %d rows, expected %d (result has %d rows)", limSQL, len(L.Rows), want, nU)}
				}
				if len(PL.Rows) != want {
					return &Violation{"limit-count", fmt.Sprintf("%q returned %d rows, expected %d (result has %d rows)", plainLimSQL, len(PL.Rows), want, nU)}
				}
				for _, q := range []*QResult{L, PL} {
					ml := multiset(q)
					for line, c := range ml {
						if mu[line] < c {
							return &Violation{"limit-foreign-row", fmt.Sprintf("%q returned a row that is not in the unlimited result: %s", q.SQL, line)}
						}
					}
				}
				// key tuples of the slice equal positions m..m+n-1 of the ordered result
				for k := 0; k < len(L.Rows); k++ {
					a, b := keyTuple(L, &L.Rows[k], keys), keyTuple(O, &O.Rows[int(op.N2)+k], keys)
					if a != b {
						return &Violation{"limit-wrong-slice", fmt.Sprintf("%q: row %d has sort key (%s) but position %d of the ordered result has (%s)", limSQL, k, a, int(op.N2)+k, b)}
					}
				}
			}
		next:
		}
		e.Sleep(0)
	}
	n.Close()
	return nil
}

func hasTimeNotLast(keys []OrderKey) bool {
	for i, k := range keys {
		if k.Field == "_time" && i < len(keys)-1 {
			return true
		}
	}
	return false
}

func sameMultiset(a, b map[string]int) bool {
	if len(a) != len(b) {
		return false
	}
	keys := make([]string, 0, len(a))
	for k := range a {
		keys = append(keys, k)
	}
	sort.Strings(keys)
	for _, k := range keys {
		if a[k] != b[k] {
			return false
		}
	}
	return true
}

// waitTables waits until the listed tables have processed count more points.
func waitTables(e *Env, n *Node, before map[string]int64, count int64) {
	for i := 0; i < 240; i++ {
		done := true
		for name, b := range before {
			if processedPoints(n, name)-b < count {
				done = false
			}
		}
		if done {
			return
		}
		e.Sleep(500 * time.Millisecond)
	}
	e.Count("probe.wait-processed-timeout")
}
