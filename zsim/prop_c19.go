package zsim

import (
	"context"
	"fmt"
	"net/http"
	"path/filepath"
	"strings"
	"time"

	"github.com/getlantern/zenodb/common"
	"github.com/getlantern/zenodb/core"
	"github.com/getlantern/zenodb/web"
	"github.com/gorilla/securecookie"
)

func init() {
	register(&PropDef{ID: "C19", Gen: genC19, Exec: execC19})
}

var c19GitHubModes = []string{"member", "notmember", "error500", "unreachable"}
var c19ClockOffsets = []time.Duration{10 * time.Minute, 59 * time.Minute, 61 * time.Minute, 2 * time.Hour, 5 * time.Hour}

// genC19: the seed selects one configuration cell (OAuth set/unset x password
// set/unset x GitHub stub behaviour x clock position); inside the cell the
// executor enumerates every credential x endpoint combination.
func genC19(seed uint64, tier string) *Plan {
	p := &Plan{Prop: "C19", Seed: seed, World: "W+RPC"}
	cell := int(seed % uint64(2*2*len(c19GitHubModes)*len(c19ClockOffsets)))
	p.Cfg.Extra = map[string]int64{
		"oauth":    int64(cell % 2),
		"password": int64((cell / 2) % 2),
		"github":   int64((cell / 4) % len(c19GitHubModes)),
		"clock":    int64((cell / (4 * len(c19GitHubModes))) % len(c19ClockOffsets)),
	}
	p.Cfg.CoalesceNanos = int64(time.Millisecond)
	p.Cfg.Partitions = 1
	p.Tables = []TableDef{{Name: "t0", Stream: "inbound", Fields: []FieldDef{{Name: "f0", E: &FieldExpr{Kind: "agg", Fn: "SUM", X: "x"}}}, GroupBy: []string{"da"}, ResNanos: int64(time.Second), RetNanos: int64(240 * time.Hour), MinFlush: int64(time.Second), MaxFlush: int64(time.Second)}}
	for i := 0; i < 3; i++ {
		p.Ops = append(p.Ops, Op{K: "ins", Dt: int64(time.Millisecond), P: &Point{ID: i, Stream: "inbound", TS: -int64(i) * int64(time.Second), Dims: []KV{{"da", StrV(fmt.Sprint("k", i))}}, Vals: []KV{{"x", FloatV(float64(i + 1))}}}})
	}
	return p
}

const (
	c19Hash  = "0123456789abcdef0123456789abcdef0123456789abcdef0123456789abcdef"
	c19Block = "0123456789abcdef0123456789abcdef"
	c19Pass  = "s3cret-token"
)

func execC19(e *Env, p *Plan) error {
	oauth := p.Cfg.Extra["oauth"] == 1
	pwSet := p.Cfg.Extra["password"] == 1
	ghMode := c19GitHubModes[p.Cfg.Extra["github"]]
	clockOff := c19ClockOffsets[p.Cfg.Extra["clock"]]

	n, err := openStandalone(e, p, "n0")
	if err != nil {
		return err
	}
	for i := range p.Ops {
		op := &p.Ops[i]
		stepDt(e, op)
		if op.K == "ins" {
			if err := n.Insert(op.P); err != nil {
				return err
			}
		}
	}
	e.Settle()
	n.DB.FlushAll()
	e.Sleep(time.Millisecond)

	// ---------------- web ----------------
	gh := &GitHubStub{Mode: "member", Org: "the-org"}
	curGitHub = gh
	defer func() { curGitHub = nil }()
	opts := &web.Opts{HashKey: c19Hash, BlockKey: c19Block, CacheDir: filepath.Join(e.Root, "webcache")}
	if oauth {
		opts.OAuthClientID, opts.OAuthClientSecret, opts.GitHubOrg = "client-id", "client-secret", "the-org"
	}
	if pwSet {
		opts.Password = c19Pass
	}
	wf, err := NewWebFront(e, n.DB, "w", opts)
	if err != nil {
		return err
	}
	defer wf.stop()
	sc := securecookie.New([]byte(c19Hash), []byte(c19Block))
	other := securecookie.New([]byte(strings.Repeat("z", 64)), []byte(strings.Repeat("y", 32)))
	issued := time.Now()
	mkCookie := func(s *securecookie.SecureCookie, exp time.Time) *http.Cookie {
		v, err := s.Encode("authcookie", &web.AuthData{AccessToken: "tok-123", Expiration: exp})
		if err != nil {
			panic(err)
		}
		return &http.Cookie{Name: "authcookie", Value: v}
	}
	goodCookie := mkCookie(sc, issued.Add(time.Hour)) // a session lasts one hour
	forged := mkCookie(other, issued.Add(1000*time.Hour))
	tampered := &http.Cookie{Name: "authcookie", Value: flipChar(goodCookie.Value)}

	// a permalink obtained by an authorised request (static token or, when no
	// auth is configured, anyone)
	sql := "SELECT * FROM t0"
	first := wf.Get("/run", sql, map[string]string{"X-Zeno-Auth-Token": c19Pass}, []*http.Cookie{goodCookie})
	permalink := ""
	if first.Result != nil {
		permalink = first.Result.Permalink
	}

	// move the clock, switch GitHub behaviour
	e.Sleep(clockOff)
	gh.mu.Lock()
	gh.Mode = ghMode
	gh.mu.Unlock()
	now := time.Now()
	cookieLive := now.Before(issued.Add(time.Hour))
	if now.Sub(issued) > 29*24*time.Hour {
		cookieLive = false
	}

	type cred struct {
		name    string
		hdr     map[string]string
		cookies []*http.Cookie
		valid   bool
	}
	open := !oauth
	creds := []cred{
		{"none", nil, nil, open},
		{"wrong-token", map[string]string{"X-Zeno-Auth-Token": "nope"}, nil, open},
		{"right-token", map[string]string{"X-Zeno-Auth-Token": c19Pass}, nil, open || pwSet},
		{"forged-cookie", nil, []*http.Cookie{forged}, open},
		{"tampered-cookie", nil, []*http.Cookie{tampered}, open},
		// near misses of the static token: the header present but empty, a
		// prefix of the token, the token in another case
		{"empty-token", map[string]string{"X-Zeno-Auth-Token": ""}, nil, open},
		{"token-prefix", map[string]string{"X-Zeno-Auth-Token": c19Pass[:len(c19Pass)-1]}, nil, open},
		{"token-other-case", map[string]string{"X-Zeno-Auth-Token": strings.ToUpper(c19Pass)}, nil, open},
		{"session-cookie", nil, []*http.Cookie{goodCookie}, open || (cookieLive && ghMode == "member")},
		// once more after valid credentials were seen: nothing a handler
		// remembers about an authorised caller may open the door for the next
		{"right-token", map[string]string{"X-Zeno-Auth-Token": c19Pass}, nil, open || pwSet},
		{"none", nil, nil, open},
		{"wrong-token", map[string]string{"X-Zeno-Auth-Token": "nope"}, nil, open},
		{"forged-cookie", nil, []*http.Cookie{forged}, open},
	}
	endpoints := []struct{ path, q string }{{"/run", sql}, {"/async", sql}, {"/immediate", sql}, {"/metrics", ""}}
	if permalink != "" {
		endpoints = append(endpoints, struct{ path, q string }{"/cached/" + permalink, ""})
	}
	for _, c := range creds {
		for _, ep := range endpoints {
			resp := wf.Get(ep.path, ep.q, c.hdr, c.cookies)
			served := resp.Code >= 200 && resp.Code < 300
			e.Count("probe.web." + c.name)
			logPath := ep.path
			if strings.HasPrefix(logPath, "/cached/") {
				logPath = "/cached/<permalink>" // random uuid: never in the log
			}
			e.Logf("web oauth=%v pw=%v gh=%s clock=+%v cred=%s %s -> %d", oauth, pwSet, ghMode, clockOff, c.name, logPath, resp.Code)
			if served && !c.valid {
				sig := "web-served-without-valid-credential"
				if c.name == "session-cookie" && !cookieLive {
					if e.Known("C19-expired-session-cookie-accepted") {
						continue
					}
					sig = "web-expired-session-accepted"
				}
				return &Violation{sig, fmt.Sprintf("GET %s with credential %q answered %d (OAuth configured=%v, password configured=%v, GitHub stub=%s, %v after the session was issued with a 1 h lifetime): data is served although the credential is not valid", ep.path, c.name, resp.Code, oauth, pwSet, ghMode, clockOff)}
			}
			if !served && c.valid {
				// refusing a valid credential is not a disclosure, but the check
				// must not pass by refusing everybody
				if !(c.name == "session-cookie") {
					return &Violation{"web-refused-valid-credential", fmt.Sprintf("GET %s with credential %q answered %d although the credential is valid (OAuth=%v password=%v)", ep.path, c.name, resp.Code, oauth, pwSet)}
				}
				e.Count("probe.web.valid-session-refused")
			}
			e.Count("nontrivial")
		}
	}

	// ---------------- RPC ----------------
	// a passthrough leader with one partition behind the real RPC server
	lcfg := p.Cfg
	lopts := leaderOpts(&lcfg, 0)
	leader, err := e.OpenNode("L", filepath.Join(e.Root, "L"), lopts, p.Tables)
	if err != nil {
		return err
	}
	for i := range p.Ops {
		if p.Ops[i].K == "ins" {
			time.Sleep(time.Microsecond)
			leader.Insert(p.Ops[i].P)
		}
	}
	pn := NewPipeNet()
	serverPw := ""
	if pwSet {
		serverPw = c19Pass
	}
	stopL := pn.ServeRPC(leader.DB, "leader:17712", 0, serverPw)
	defer stopL()
	stopN := pn.ServeRPC(n.DB, "node:17712", 1, serverPw)
	defer stopN()
	for _, cr := range []struct {
		name, pw string
		valid    bool
	}{{"none", "", !pwSet}, {"wrong", "nope", !pwSet}, {"right", c19Pass, true}} {
		// query
		cl, err := pn.DialRPC("node:17712", cr.pw)
		if err != nil {
			return err
		}
		rows := 0
		_, iterate, qerr := cl.Query(context.Background(), sql, true)
		if qerr == nil {
			_, qerr = iterate(func(row *core.FlatRow) (bool, error) { rows++; return true, nil })
		}
		cl.Close()
		e.Logf("rpc query pw=%v cred=%s rows=%d err=%v", pwSet, cr.name, rows, qerr != nil)
		e.Count("probe.rpc.query." + cr.name)
		if rows > 0 && !cr.valid {
			return &Violation{"rpc-query-without-password", fmt.Sprintf("RPC query with credential %q returned %d rows although a password is configured", cr.name, rows)}
		}
		if rows == 0 && cr.valid {
			return &Violation{"rpc-query-refused-valid", fmt.Sprintf("RPC query with credential %q returned nothing: %v", cr.name, qerr)}
		}
		// follow
		cl, err = pn.DialRPC("leader:17712", cr.pw)
		if err != nil {
			return err
		}
		got := 0
		done := make(chan struct{})
		go func() {
			defer close(done)
			_, next, ferr := cl.Follow(context.Background(), &common.Follow{Stream: "inbound", FollowerID: common.FollowerID{Partition: 0, ID: 7}, Partitions: map[string]*common.Partition{"": {Tables: []*common.PartitionTable{{Name: "t0"}}}}})
			if ferr != nil {
				return
			}
			for got < 3 {
				if _, _, nerr := next(); nerr != nil {
					return
				}
				got++
			}
		}()
		e.Sleep(5 * time.Second)
		cl.Close()
		e.Sleep(time.Second)
		e.Logf("rpc follow pw=%v cred=%s entries=%d", pwSet, cr.name, got)
		e.Count("probe.rpc.follow." + cr.name)
		if got > 0 && !cr.valid {
			return &Violation{"rpc-follow-without-password", fmt.Sprintf("RPC follow with credential %q received %d WAL entries although a password is configured", cr.name, got)}
		}
		if got == 0 && cr.valid {
			return &Violation{"rpc-follow-refused-valid", fmt.Sprintf("RPC follow with credential %q received nothing", cr.name)}
		}
		// remote query handler registration
		cl, err = pn.DialRPC("leader:17712", cr.pw)
		if err != nil {
			return err
		}
		leaked := ""
		go cl.ProcessRemoteQuery(context.Background(), 0, func(ctx context.Context, sqlString string, isSubQuery bool, subQueryResults [][]interface{}, unflat bool, onFields core.OnFields, onRow core.OnRow, onFlatRow core.OnFlatRow) (interface{}, error) {
			leaked = sqlString
			return nil, fmt.Errorf("rogue handler")
		}, 20*time.Second)
		e.Sleep(time.Second)
		secret := "SELECT f0 FROM t0 WHERE da = 'secret-customer'"
		leader.Query(secret, QOpts{IncludeMem: true, Ctx: ctxTimeout(5 * time.Second)})
		e.Sleep(time.Second)
		cl.Close()
		e.Logf("rpc remoteQuery pw=%v cred=%s leaked=%v", pwSet, cr.name, leaked != "")
		e.Count("probe.rpc.remotequery." + cr.name)
		if leaked != "" && !cr.valid {
			if e.Known("C19-remote-query-registration-unauthenticated") {
				continue
			}
			return &Violation{"rpc-remotequery-without-password", fmt.Sprintf("a client with credential %q registered itself as query handler for partition 0 although a password is configured, and received the text of the next query (%q); it could answer it with rows of its own", cr.name, leaked)}
		}
		if leaked == "" && cr.valid {
			return &Violation{"rpc-remotequery-refused-valid", fmt.Sprintf("a client with credential %q could not register as query handler", cr.name)}
		}
	}
	leader.Abandon()
	n.Close()
	return nil
}

func ctxTimeout(d time.Duration) context.Context {
	ctx, _ := context.WithTimeout(context.Background(), d)
	return ctx
}

func flipChar(s string) string {
	if len(s) < 10 {
		return s + "x"
	}
	b := []byte(s)
	i := len(b) / 2
	if b[i] == 'A' {
		b[i] = 'B'
	} else {
		b[i] = 'A'
	}
	return string(b)
}
