package zsim

import (
	"fmt"
	"math"
	"time"
)

func init() {
	register(&PropDef{ID: "C18", Gen: genC18, Exec: execC18})
}

// genC18: ingest a dataset, then run one memstore-inclusive scan whose
// consumer pauses after chosen rows, inserts further points (hitting delivered
// keys, undelivered keys and new keys), optionally forces a flush, lets the
// pipeline drain and resumes.
func genC18(seed uint64, tier string) *Plan {
	r := NewRng(seed, 18)
	u := genUniverse(r)
	p := &Plan{Prop: "C18", Seed: seed, World: "S"}
	p.Cfg.CoalesceNanos = int64(time.Millisecond)
	p.Cfg.VirtualTime = r.Bool(0.3)
	span := int64(PickOne(r, []time.Duration{4 * time.Second, 20 * time.Second, 2 * time.Minute}))
	pts := genDataset(r, p, u, SchemaOpts{MaxTables: 2, RetMin: 40 * time.Minute, RetMax: 3 * time.Hour}, 3, 30, span, 0.1, 0.1)
	streams := streamsOf(p.Tables)
	// the scan
	scan := Op{K: "scan", Dt: int64(time.Millisecond), S: p.Tables[r.Intn(len(p.Tables))].Name}
	nPauses := r.Range(1, 4)
	id := 200
	for k := 0; k < nPauses; k++ {
		pause := Op{K: "pause", N: int64(r.Range(-1, 12)), B: r.Bool(0.3)} // N = row index after which to pause; -1 = between snapshot and first row
		for j := 0; j < r.Range(1, 4); j++ {
			var pt *Point
			if r.Bool(0.7) && len(pts) > 0 {
				// same key and period as an earlier point, new values
				src := PickOne(r, pts)
				cp := *src
				cp.ID = id
				cp.Vals = nil
				for _, n := range u.ValNames {
					if r.Bool(0.7) {
						cp.Vals = append(cp.Vals, KV{n, genVal(r)})
					}
				}
				if len(cp.Vals) == 0 {
					cp.Vals = []KV{{"x", genVal(r)}}
				}
				pt = &cp
			} else {
				pt = genPoint(r, u, p.Tables, PointOpts{SpanNanos: span, Streams: streams, NoOdd: true}, pts, id)
			}
			id++
			pause.Sub = append(pause.Sub, Op{K: "ins", P: pt})
		}
		scan.Sub = append(scan.Sub, pause)
	}
	if r.Bool(0.25) {
		// a scan that starts while a flush of its table is under way, at one of
		// the flush's hook sites: its snapshot is taken between two steps of
		// the flush
		p.Ops = append(p.Ops, Op{K: "scanInFlush", Dt: int64(time.Millisecond), S: scan.S,
			S2: PickOne(r, []string{"flush.begin", "flush.headerWritten", "flush.bodyDone", "flush.synced", "flush.renamed", "flush.swapped", "flush.swapped"})})
	}
	p.Ops = append(p.Ops, scan)
	maybeYield(r, p, 0.4)
	return p
}

func execC18(e *Env, p *Plan) error {
	n, err := openStandalone(e, p, "n0")
	if err != nil {
		return err
	}
	m := NewModel(p.Tables)
	for i := range p.Ops {
		op := &p.Ops[i]
		stepDt(e, op)
		switch op.K {
		case "ins":
			if err := n.Insert(op.P); err != nil {
				return err
			}
			m.Offer(op.P, math.MinInt64)
		case "flush":
			n.DB.FlushAll()
		case "scanInFlush":
			e.Settle()
			table := op.S
			mt := m.Tables[table]
			if mt == nil {
				return fmt.Errorf("no table %s", table)
			}
			var q *QResult
			e.mu.Lock()
			e.OnPoint = func(nn *Node, site, tbl string) {
				if q != nil || nn != n || site != op.S2 || tbl != table {
					return
				}
				q = n.Query("SELECT * FROM "+table, QOpts{IncludeMem: true})
				e.Count("probe.scan-started-inside-flush")
			}
			e.mu.Unlock()
			n.DB.FlushAll()
			e.mu.Lock()
			e.OnPoint = nil
			e.mu.Unlock()
			if q == nil {
				break // nothing to flush
			}
			if q.Err != nil {
				return &Violation{"query-error", fmt.Sprintf("scan of %s started at %s: %v", table, op.S2, q.Err)}
			}
			// every accepted point was processed before the flush began and
			// nothing was inserted since: the scan reflects all of them, once
			if v := compareToModelEnv(e, mt, q, "scan started at "+op.S2); v != nil {
				v.Sig = "scan-inside-flush:" + v.Sig
				v.Detail = fmt.Sprintf("a memstore-inclusive scan of %s that started while a flush was at %s does not reflect the table as of its start: %s", table, op.S2, v.Detail)
				return v
			}
			if len(mt.Rows) > 0 {
				e.Count("nontrivial")
			}
		case "scan":
			e.Settle()
			table := op.S
			mt := m.Tables[table]
			if mt == nil {
				return fmt.Errorf("no table %s", table)
			}
			// the model as of scan start: a deep copy of the accepted points
			snap := NewModel([]TableDef{*mt.Def}).Tables[table]
			for _, pt := range mt.Accepted {
				snap.Add(pt)
			}
			pauses := map[int64]*Op{}
			for k := range op.Sub {
				pauses[op.Sub[k].N] = &op.Sub[k]
			}
			var later []*Point
			doPause := func(ps *Op) {
				for k := range ps.Sub {
					pt := ps.Sub[k].P
					time.Sleep(time.Microsecond)
					if err := n.Insert(pt); err == nil {
						m.Offer(pt, math.MinInt64)
						later = append(later, pt)
					}
				}
				// let the new points reach the live memstore
				for k := 0; k < 3; k++ {
					time.Sleep(60 * time.Millisecond)
				}
				if ps.B {
					n.DB.FlushAll()
					e.Count("probe.flush-during-scan")
				}
				e.Count("probe.pause")
			}
			inScan := true
			e.mu.Lock()
			e.OnPoint = func(nn *Node, site, tbl string) {
				if inScan && site == "scan.snapshotTaken" && tbl == table {
					if ps := pauses[-1]; ps != nil {
						delete(pauses, -1)
						e.Count("probe.pause-before-first-row")
						doPause(ps)
					}
				}
			}
			e.mu.Unlock()
			q := n.Query("SELECT * FROM "+table, QOpts{IncludeMem: true, OnRow: func(i int, row *QRow) bool {
				if ps := pauses[int64(i)]; ps != nil {
					delete(pauses, int64(i))
					doPause(ps)
				}
				return true
			}})
			inScan = false
			e.mu.Lock()
			e.OnPoint = nil
			e.mu.Unlock()
			if q.Err != nil {
				return &Violation{"query-error", fmt.Sprintf("scan of %s: %v", table, q.Err)}
			}
			e.Logf("scan %s rows=%d later=%d", table, len(q.Rows), len(later))
			if len(later) > 0 && len(snap.Rows) > 0 {
				e.Count("nontrivial")
			}
			if v := compareToModelEnv(e, snap, q, "scan"); v != nil {
				if e.Known("C18-memstore-copy-shares-sequences") {
					break
				}
				v.Sig = "scan-not-snapshot:" + v.Sig
				v.Detail = fmt.Sprintf("a memstore-inclusive scan of %s does not reflect the table as of its start (points %s were inserted while the consumer was paused): %s", table, ptIDs(later), v.Detail)
				return v
			}
		}
		e.Sleep(0)
	}
	// afterwards the table must contain everything
	e.Settle()
	for _, name := range sortedTables(m) {
		q := n.Query("SELECT * FROM "+name, QOpts{IncludeMem: true})
		if q.Err != nil {
			return &Violation{"query-error", q.Err.Error()}
		}
		if v := compareToModelEnv(e, m.Tables[name], q, "final"); v != nil {
			return v
		}
	}
	n.Close()
	return nil
}
