package zsim

import (
	"context"
	"fmt"
	"path/filepath"
	"sort"
	"strings"
	"time"

	"github.com/getlantern/zenodb/web"
)

func init() {
	register(&PropDef{ID: "C13", Gen: genC13, Exec: execC13, DeadlockIsViolation: true})
}

var qfaultKinds = []string{"noregister", "err-before", "err-after-fields", "err-mid", "retriable", "hang", "slow-late", "slow-ok"}

func genC13(seed uint64, tier string) *Plan {
	r := NewRng(seed, 13)
	u := genUniverse(r)
	u.NoConst = true
	if r.Bool(0.04) {
		return genC13FollowerMemory(r, u, seed)
	}
	p := &Plan{Prop: "C13", Seed: seed, World: "CL+S+W"}
	p.Cfg.Partitions = PickOne(r, []int{1, 2, 3, 3, 4})
	p.Cfg.Leaders = 1
	p.Cfg.FollowersPerPart = 1
	p.Cfg.CoalesceNanos = int64(PickOne(r, []time.Duration{time.Millisecond, time.Millisecond, 2 * time.Second}))
	p.Cfg.Codec = r.Bool(0.3)
	p.Cfg.Extra = map[string]int64{"clusterQueryTimeout": int64(20 * time.Second)}
	p.Tables = genSchema(r, u, SchemaOpts{MaxTables: 1, RetMin: time.Hour, RetMax: 4 * time.Hour, Partition: true})
	span := int64(PickOne(r, []time.Duration{10 * time.Second, time.Minute, 4 * time.Minute}))
	streams := streamsOf(p.Tables)
	p.Ops = append(p.Ops, Op{K: "adv", Dt: int64(37 * time.Second)})
	n := r.Range(6, 50)
	var pts []*Point
	for i := 0; i < n; i++ {
		pt := genPoint(r, u, p.Tables, PointOpts{SpanNanos: span, Streams: streams, NoOdd: true}, pts, i)
		pts = append(pts, pt)
		p.Ops = append(p.Ops, Op{K: "ins", Dt: PickOne(r, insDts[:3]), P: pt})
	}
	p.Ops = append(p.Ops, Op{K: "settle"})
	// faults delay parts of a query by simulated seconds: only queries whose
	// result does not depend on the clock (native resolution, no range)
	o := QGenOpts{Group: true, Where: true, Order: true, NoConst: true, NoPeriod: true, DataSpan: span}
	t := &p.Tables[0]
	nq := r.Range(3, 8)
	for i := 0; i < nq; i++ {
		q := genQuery(r, t, u, o)
		sql := q.SQL()
		if r.Bool(0.3) {
			sql = "SELECT * FROM " + t.Name
		}
		switch r.Intn(10) {
		case 0, 1, 2, 3:
			// cluster query with a non-empty subset of partitions made to fail
			op := Op{K: "cq", S: sql}
			if r.Bool(0.12) {
				// no partition fault: the caller's own row consumer fails at row
				// N2 (a response size limit, a client going away)
				op.N2 = int64(r.Range(1, 4))
				p.Ops = append(p.Ops, op)
				continue
			}
			if r.Bool(0.85) {
				for part := 0; part < p.Cfg.Partitions; part++ {
					if r.Bool(0.5) {
						op.Sub = append(op.Sub, Op{K: PickOne(r, qfaultKinds), N: int64(part), N2: int64(r.Range(0, 3))})
					}
				}
				if len(op.Sub) == 0 {
					op.Sub = append(op.Sub, Op{K: PickOne(r, qfaultKinds), N: int64(r.Intn(p.Cfg.Partitions)), N2: int64(r.Range(0, 3))})
				}
			}
			// caller deadline: none, comfortable, shorter than a slow partition
			op.N = PickOne(r, []int64{0, 0, int64(60 * time.Second), int64(4 * time.Second)})
			p.Ops = append(p.Ops, op)
		case 4, 5, 6:
			// embedded query with a deadline: already expired (N<0), or
			// expiring while the consumer is at row N2
			op := Op{K: "dq", S: sql, N: PickOne(r, []int64{-int64(time.Second), int64(time.Second), int64(10 * time.Second)}), N2: int64(r.Range(0, 6))}
			p.Ops = append(p.Ops, op)
		default:
			// (the web handler runs the query at a later instant than any
			// reference query: only clock-independent queries)
			sql = "SELECT * FROM " + t.Name
			if r.Bool(0.5) {
				var dims []string
				for _, dn := range dimNames(u) {
					if r.Bool(0.5) {
						dims = append(dims, dn)
					}
				}
				if len(dims) > 0 {
					sql = "SELECT _points FROM " + t.Name + " GROUP BY " + strings.Join(dims, ", ")
				}
			}
			// HTTP: response-size limit between one row and everything, or a
			// query timeout shorter than the coalesce wait
			op := Op{K: "hq", S: sql, N: PickOne(r, []int64{0, 0, 60, 200, 1000, 1 << 30}), N2: PickOne(r, []int64{0, 0, int64(500 * time.Millisecond)})}
			p.Ops = append(p.Ops, op)
		}
	}
	keyHasDa := len(t.GroupBy) == 0
	for _, g := range t.GroupBy {
		if g == "da" {
			keyHasDa = true
		}
	}
	if keyHasDa && r.Bool(0.15) {
		// memory limit: a table with more than 1000 keys (the limit is looked at
		// every 1000th row of a scan) on a database with a memory cap, queried
		// while the process is over the cap
		op := Op{K: "mq", N: int64(r.Range(1050, 2300)), B: r.Bool(0.5)}
		for i := 0; i < 4; i++ {
			op.Strs = append(op.Strs, genQuery(r, t, u, o).SQL())
		}
		op.Strs = append(op.Strs, "SELECT * FROM "+t.Name, "SELECT _points FROM "+t.Name+" GROUP BY db", "SELECT _points FROM "+t.Name+" GROUP BY _")
		p.Ops = append(p.Ops, op)
	}
	return p
}

// c13Memory: see the "mq" op.
func c13Memory(e *Env, p *Plan, op *Op) *Violation {
	cfg := p.Cfg
	cfg.MaxMemoryRatio = 0.5
	cfg.CoalesceNanos = int64(time.Millisecond)
	m, err := e.OpenNode("M", filepath.Join(e.Root, "M"), dbOpts(&cfg), tablesWithFlush(p.Tables, int64(time.Hour), int64(1000*time.Hour)))
	if err != nil {
		return &Violation{"harness", err.Error()}
	}
	defer m.Abandon()
	t := &p.Tables[0]
	now := time.Now()
	before := map[string]int64{t.Name: processedPoints(m, t.Name)}
	for i := 0; i < int(op.N); i++ {
		dims := map[string]interface{}{"da": fmt.Sprintf("k%05d", i), "db": i % 7, "dc": i%2 == 0}
		vals := map[string]interface{}{"x": float64(i%13) + 1, "y": float64(i % 5), "z": 1.5, "w": 2.0}
		if err := m.DB.Insert(t.Stream, now.Add(-time.Duration(i%20)*time.Second), dims, vals); err != nil {
			return &Violation{"harness", err.Error()}
		}
	}
	waitTables(e, m, before, op.N)
	e.Settle()
	if op.B {
		m.DB.FlushAll()
		e.Sleep(time.Millisecond)
	}
	for _, sql := range op.Strs {
		pf, pl := m.Prepare(sql, true), m.Prepare(sql, true)
		full := pf.Run(QOpts{})
		if full.Err != nil || full.Panicked {
			e.Count("q.error")
			continue
		}
		e.SetMemory(m, 1<<62)
		time.Sleep(3 * time.Second) // the memory reading is refreshed every 2 s
		q := pl.Run(QOpts{})
		e.SetMemory(m, 0)
		time.Sleep(3 * time.Second)
		if q.Panicked {
			return &Violation{"panic-in-query", fmt.Sprintf("%q over the memory limit: %v", sql, q.Err)}
		}
		e.Logf("mq %q rows=%d/%d err=%v", sql, len(q.Rows), len(full.Rows), q.Err != nil)
		if q.Err != nil {
			e.Count("probe.mq-stopped-by-memory-limit")
			continue
		}
		if ok, diff := sameRows(full, q); !ok {
			return &Violation{"memory-limit-truncated-without-error", fmt.Sprintf("%q on a table with %d keys while the process is over its memory limit returned %d of %d rows and a nil error: %s", sql, op.N, len(q.Rows), len(full.Rows), diff)}
		}
		e.Count("probe.mq-complete")
	}
	e.Count("nontrivial")
	return nil
}

// genC13FollowerMemory: a plan in world CR in which one follower runs over
// its memory limit while it answers (the error reaches the leader through the
// real RPC stack, together with the end of the results).
func genC13FollowerMemory(r *Rng, u *Universe, seed uint64) *Plan {
	p := &Plan{Prop: "C13", Seed: seed, World: "CR"}
	p.Cfg.Partitions = 2
	p.Cfg.Leaders = 1
	p.Cfg.FollowersPerPart = 1
	p.Cfg.CoalesceNanos = int64(time.Millisecond)
	p.Cfg.MaxMemoryRatio = 0.5
	p.Cfg.Extra = map[string]int64{"clusterQueryTimeout": int64(20 * time.Second), "real": 1}
	p.Tables = genSchema(r, u, SchemaOpts{MaxTables: 1, RetMin: time.Hour, RetMax: 4 * time.Hour})
	t := &p.Tables[0]
	// the key must keep da (the bulk keys differ in it), partitioned by da
	t.GroupBy = nil
	t.PartitionBy = []string{"da"}
	t.Where = nil
	o := QGenOpts{Group: true, Where: true, Order: true, NoConst: true, NoPeriod: true}
	op := Op{K: "rmem", N: int64(r.Range(2200, 3000)), N2: int64(r.Intn(2))}
	for i := 0; i < 3; i++ {
		op.Strs = append(op.Strs, genQuery(r, t, u, o).SQL())
	}
	op.Strs = append(op.Strs, "SELECT * FROM "+t.Name, "SELECT _points FROM "+t.Name+" GROUP BY db", "SELECT _points FROM "+t.Name+" GROUP BY _")
	p.Ops = append(p.Ops, Op{K: "adv", Dt: int64(37 * time.Second)}, op)
	return p
}

func execC13FollowerMemory(e *Env, p *Plan) error {
	c, err := NewCluster(e, p)
	if err != nil {
		return err
	}
	var op *Op
	for i := range p.Ops {
		stepDt(e, &p.Ops[i])
		if p.Ops[i].K == "rmem" {
			op = &p.Ops[i]
		}
	}
	if op == nil {
		return nil
	}
	t := &p.Tables[0]
	l := c.Leaders[0]
	now := time.Now()
	before := map[string]map[string]int64{}
	for _, f := range c.Followers {
		before[f.Name] = map[string]int64{t.Name: processedPoints(f.N, t.Name)}
	}
	for i := 0; i < int(op.N); i++ {
		dims := map[string]interface{}{"da": fmt.Sprintf("k%05d", i), "db": i % 7, "dc": i%2 == 0}
		vals := map[string]interface{}{"x": float64(i%13) + 1, "y": float64(i % 5), "z": 1.5, "w": 2.0}
		if err := l.N.DB.Insert(t.Stream, now.Add(-time.Duration(i%20)*time.Second), dims, vals); err != nil {
			return err
		}
	}
	// every follower sees every entry (and keeps its partition's share)
	for i := 0; i < 600; i++ {
		done := true
		for _, f := range c.Followers {
			if processedPoints(f.N, t.Name)-before[f.Name][t.Name] < op.N {
				done = false
			}
		}
		if done {
			break
		}
		e.Sleep(500 * time.Millisecond)
	}
	e.Settle()
	if v := waitForQueryFeeds(e, c, p, time.Now().Add(5*time.Minute)); v != nil {
		return v
	}
	victim := c.Followers[int(op.N2)%len(c.Followers)]
	rows, _ := dumpPoints(victim.N, t.Name)
	if len(rows) < 1000 {
		// the limit is looked at every 1000th row: this partition is too small
		e.Count("skipped.partition-below-1000-rows")
		c.CloseAll()
		return nil
	}
	for _, sql := range op.Strs {
		alignClock(e, int64(time.Millisecond), int64(time.Minute))
		pf, pq := l.N.Prepare(sql, true), l.N.Prepare(sql, true)
		full := pf.Run(QOpts{})
		if full.Err != nil || full.Panicked || (full.Stats != nil && full.Stats.NumSuccessfulPartitions != full.Stats.NumPartitions) {
			e.Count("q.error")
			continue
		}
		e.Sleep(3 * time.Second)
		e.SetMemory(victim.N, 1<<62)
		time.Sleep(3 * time.Second) // the memory reading is refreshed every 2 s
		q := pq.Run(QOpts{})
		e.SetMemory(victim.N, 0)
		time.Sleep(3 * time.Second)
		if q.Panicked {
			return &Violation{"panic-in-cluster-query", fmt.Sprintf("%q with follower %s over its memory limit: %v", sql, victim.Name, q.Err)}
		}
		told := q.Err != nil || (q.Stats != nil && q.Stats.NumSuccessfulPartitions < q.Stats.NumPartitions)
		e.Logf("rmem %q rows=%d/%d told=%v", sql, len(q.Rows), len(full.Rows), told)
		if told {
			e.Count("probe.rmem-told")
			continue
		}
		if ok, diff := sameRows(full, q); !ok {
			return &Violation{"follower-memory-limit-not-reported", fmt.Sprintf("%q while follower %s (partition %d, %d rows) is over its memory limit: no error, statistics %+v claim every partition answered, but the result differs from the one without pressure: %s", sql, victim.Name, victim.Partition, len(rows), q.Stats, diff)}
		}
		e.Count("probe.rmem-complete")
	}
	e.Count("nontrivial")
	c.CloseAll()
	return nil
}

func execC13(e *Env, p *Plan) error {
	for i := range p.Ops {
		if p.Ops[i].K == "rmem" {
			return execC13FollowerMemory(e, p)
		}
	}
	c, err := NewCluster(e, p)
	if err != nil {
		return err
	}
	dcfg := p.Cfg
	d, err := e.OpenNode("D", filepath.Join(e.Root, "D"), dbOpts(&dcfg), p.Tables)
	if err != nil {
		return err
	}
	webN := 0
	for i := range p.Ops {
		op := &p.Ops[i]
		stepDt(e, op)
		switch op.K {
		case "ins":
			if err := c.Leaders[0].N.Insert(op.P); err != nil {
				return err
			}
			if err := d.Insert(op.P); err != nil {
				return err
			}
		case "settle":
			clusterSettle(e, c)
			// the web API reads the filestore only
			d.DB.FlushAll()
			for _, f := range c.Followers {
				f.N.DB.FlushAll()
			}
			e.Sleep(time.Millisecond)
			if v := checkRouting(e, c, d, p); v != nil {
				return v
			}
		case "cq":
			if v := c13Cluster(e, c, d, p, op); v != nil {
				return v
			}
			// let late answers and re-registrations settle
			for _, f := range c.Followers {
				c.SetQueryFault(f.Name, nil)
			}
			e.Sleep(3 * time.Second)
			for _, f := range op.Sub {
				if f.K == "hang" || f.K == "slow-late" {
					// a hung handler comes back a minute after it was called, a
					// slow one after 30 s (the harness keeps only five handlers per
					// follower registered)
					e.Sleep(time.Minute)
					break
				}
			}
		case "dq":
			if v := c13Deadline(e, d, op); v != nil {
				return v
			}
		case "mq":
			if v := c13Memory(e, p, op); v != nil {
				return v
			}
		case "hq":
			webN++
			if v := c13HTTP(e, d, op, webN); v != nil {
				return v
			}
		}
		e.Sleep(0)
	}
	c.CloseAll()
	d.Abandon()
	return nil
}

func c13Cluster(e *Env, c *Cluster, d *Node, p *Plan, op *Op) *Violation {
	clusterSettle(e, c)
	faulty := map[int]string{}
	for _, f := range op.Sub {
		part := int(f.N)
		name := fmt.Sprintf("F%d.0", part)
		qf := &QFault{Kind: f.K, Rows: int(f.N2)}
		switch f.K {
		case "hang":
			qf.D = time.Second
		case "slow-late":
			qf.Kind, qf.D = "slow", 30*time.Second // longer than ClusterQueryTimeout (20 s)
		case "slow-ok":
			qf.Kind, qf.D = "slow", 2*time.Second
		}
		c.SetQueryFault(name, qf)
		if f.K != "slow-ok" {
			faulty[part] = f.K
		}
	}
	if len(op.Sub) > 0 {
		// handlers that were registered before the fault was set are in the
		// leader's queue already; "noregister" needs them drained
		for _, f := range op.Sub {
			if f.K == "noregister" {
				c.drainHandlers(c.Leaders[0], int(f.N))
			}
		}
	}
	ctx := context.Background()
	if op.N > 0 {
		var cancel context.CancelFunc
		ctx, cancel = context.WithTimeout(ctx, time.Duration(op.N))
		defer cancel()
	}
	pl, pd := c.Leaders[0].N.Prepare(op.S, true), d.Prepare(op.S, true)
	if op.N2 > 0 && len(op.Sub) == 0 {
		// the consumer fails at its N2-th row: the result is cut short, so the
		// caller must get an error back (its own or another)
		qd := pd.Run(QOpts{})
		ql := pl.Run(QOpts{Ctx: ctx, ErrAt: int(op.N2)})
		if ql.Panicked {
			return &Violation{"panic-in-cluster-query", fmt.Sprintf("%q with a failing consumer: %v", op.S, ql.Err)}
		}
		if qd.Err != nil || qd.Panicked || int64(len(qd.Rows)) < op.N2 {
			e.Count("q.error")
			return nil
		}
		e.Logf("cq %q consumer fails at row %d err=%v", op.S, op.N2, ql.Err != nil)
		e.Count("probe.cq-consumer-error")
		if ql.Err == nil {
			return &Violation{"consumer-error-swallowed", fmt.Sprintf("cluster query %q whose row consumer failed at row %d of %d returned err=nil (statistics %+v): the truncated result looks like a success", op.S, op.N2, len(qd.Rows), ql.Stats)}
		}
		e.Count("nontrivial")
		return nil
	}
	ql := pl.Run(QOpts{Ctx: ctx})
	qd := pd.Run(QOpts{})
	if ql.Panicked {
		return &Violation{"panic-in-cluster-query", fmt.Sprintf("%q with faults %v: %v", op.S, faulty, ql.Err)}
	}
	if qd.Err != nil || qd.Panicked {
		e.Count("q.error")
		return nil
	}
	// only faults that actually fired count (e.g. "error after k rows" on a
	// partition with fewer rows does nothing; a slow partition that is never
	// waited for long enough is only late)
	for part, kind := range faulty {
		fired := c.QueryFaultFired(fmt.Sprintf("F%d.0", part))
		if kind == "slow-late" {
			continue // judged by the timeout statistics alone
		}
		if !fired {
			delete(faulty, part)
		}
	}
	var kinds []string
	for _, k := range faulty {
		kinds = append(kinds, k)
		e.Count("probe.cq-fault." + k)
	}
	sort.Strings(kinds)
	told := ql.Err != nil
	var missing []int
	if ql.Stats != nil {
		missing = ql.Stats.MissingPartitions
		if ql.Stats.NumSuccessfulPartitions < ql.Stats.NumPartitions {
			told = true
		}
	}
	equal, diff := sameRows(qd, ql)
	if ql.Err != nil {
		equal = false
	}
	e.Logf("cq %q faults=%v deadline=%v rows=%d/%d told=%v", op.S, kinds, time.Duration(op.N), len(ql.Rows), len(qd.Rows), told)
	if len(faulty) == 0 && op.N == 0 {
		if told || !equal {
			return &Violation{"fault-free-incomplete", fmt.Sprintf("%q without any fault: err=%v stats=%+v, equal to the standalone answer: %v %s", op.S, ql.Err, ql.Stats, equal, diff)}
		}
		e.Count("probe.cq-fault-free")
		e.Count("nontrivial")
		return nil
	}
	if !equal && !told {
		return &Violation{"incomplete-presented-as-complete", fmt.Sprintf("cluster query %q with partition faults %v (caller deadline %v) returned %d of %d rows, err=nil and statistics %+v claim every partition answered: %s", op.S, faulty, time.Duration(op.N), len(ql.Rows), len(qd.Rows), ql.Stats, diff)}
	}
	if ql.Err == nil && ql.Stats != nil {
		for part, kind := range faulty {
			if kind == "slow-late" {
				continue
			}
			listed := false
			for _, m := range missing {
				if m == part {
					listed = true
				}
			}
			if !listed && !equal {
				return &Violation{"missing-partition-not-listed", fmt.Sprintf("cluster query %q: partition %d failed (%s) but is not in MissingPartitions %v (successful %d of %d), err=nil", op.S, part, kind, missing, ql.Stats.NumSuccessfulPartitions, ql.Stats.NumPartitions)}
			}
		}
	}
	if len(qd.Rows) > 0 {
		e.Count("nontrivial")
	}
	return nil
}

// drainHandlers consumes the query handlers a leader holds for a partition
// (by running no-op queries against them is not possible from outside, so the
// harness makes the follower's registered handlers answer "retriable" once).
func (c *Cluster) drainHandlers(l *CNode, partition int) {
	// Handlers registered earlier check the fault table when invoked: with
	// "noregister" set they answer with a retriable error and are not replaced,
	// so the leader runs out of handlers for the partition.
}

func c13Deadline(e *Env, d *Node, op *Op) *Violation {
	full := d.Query(op.S, QOpts{IncludeMem: true})
	if full.Err != nil || full.Panicked {
		e.Count("q.error")
		return nil
	}
	var ctx context.Context
	var cancel context.CancelFunc
	if op.N < 0 {
		ctx, cancel = context.WithDeadline(context.Background(), time.Now().Add(time.Duration(op.N)))
		e.Count("probe.dq-expired")
	} else {
		ctx, cancel = context.WithTimeout(context.Background(), time.Duration(op.N))
	}
	defer cancel()
	pq := d.Prepare(op.S, true)
	slept := false
	q := pq.Run(QOpts{Ctx: ctx, OnRow: func(i int, row *QRow) bool {
		if op.N > 0 && int64(i) == op.N2 && !slept {
			// the consumer takes longer than the deadline allows
			slept = true
			time.Sleep(time.Duration(op.N) + time.Second)
			e.Count("probe.dq-expired-mid-scan")
		}
		return true
	}})
	if q.Panicked {
		return &Violation{"panic-in-query", fmt.Sprintf("%q with a deadline: %v", op.S, q.Err)}
	}
	equal, diff := sameRows(full, q)
	if q.Err != nil {
		equal = false
	}
	e.Logf("dq %q deadline=%v rows=%d/%d err=%v", op.S, time.Duration(op.N), len(q.Rows), len(full.Rows), q.Err != nil)
	if !equal && q.Err == nil {
		return &Violation{"deadline-truncated-without-error", fmt.Sprintf("%q with deadline %v (consumer pauses after row %d) returned %d of %d rows and a nil error: %s", op.S, time.Duration(op.N), op.N2, len(q.Rows), len(full.Rows), diff)}
	}
	if len(full.Rows) > 0 {
		e.Count("nontrivial")
	}
	return nil
}

func c13HTTP(e *Env, d *Node, op *Op, n int) *Violation {
	opts := &web.Opts{CacheDir: filepath.Join(e.Root, fmt.Sprintf("webcache%d", n)), MaxResponseBytes: int(op.N), QueryTimeout: time.Duration(op.N2)}
	wf, err := NewWebFront(e, d.DB, fmt.Sprintf("w%d", n), opts)
	if err != nil {
		return &Violation{"web-configure-failed", err.Error()}
	}
	defer wf.stop()
	// ground truth: the embedded API, disk only like the web handler
	full := d.Query(op.S, QOpts{IncludeMem: false})
	if full.Err != nil || full.Panicked {
		e.Count("q.error")
		return nil
	}
	for attempt, path := range []string{"/run", "/run", "/async"} {
		resp := wf.Get(path, op.S, nil, nil)
		e.Logf("hq %s %q limit=%d timeout=%v -> %d", path, op.S, op.N, time.Duration(op.N2), resp.Code)
		e.Count(fmt.Sprintf("probe.http.%d", resp.Code))
		if resp.Code != 200 {
			continue
		}
		if resp.Result == nil {
			return &Violation{"http-undecodable", fmt.Sprintf("GET %s?%s answered 200 with a body that is not a query result", path, op.S)}
		}
		got := resp.AsQResult(op.S)
		want := &QResult{SQL: op.S, Fields: full.Fields}
		for _, r := range full.Rows {
			want.Rows = append(want.Rows, QRow{TS: r.TS / int64(time.Millisecond) * int64(time.Millisecond), Key: jsonKeyCanon(r.KeyKVs), Vals: r.Vals})
		}
		if ok, diff := sameRows(want, got); !ok {
			stats := ""
			if resp.Result.Stats != nil {
				stats = fmt.Sprintf("%+v", *resp.Result.Stats)
			}
			sig := "http-truncated-result-served-as-success"
			if attempt > 0 {
				sig = "http-truncated-result-cached"
			}
			if len(got.Rows) >= len(want.Rows) {
				sig = "http-result-differs"
			}
			if strings.HasPrefix(sig, "http-truncated") && e.Known("C13-web-ignores-iterate-error") {
				return nil
			}
			return &Violation{sig, fmt.Sprintf("GET %s?%s (MaxResponseBytes=%d, QueryTimeout=%v) answered 200 with %d rows, stats %s; the embedded API returns %d rows: %s", path, op.S, op.N, time.Duration(op.N2), len(got.Rows), stats, len(want.Rows), diff)}
		}
		if len(want.Rows) > 0 {
			e.Count("nontrivial")
		}
	}
	return nil
}
