package zsim

import (
	"fmt"
	"math/rand/v2"
	"time"
)

// Rng wraps the single PCG generator a plan is derived from.
type Rng struct{ *rand.Rand }

func NewRng(seed uint64, stream uint64) *Rng {
	return &Rng{rand.New(rand.NewPCG(seed, stream^0x9e3779b97f4a7c15))}
}

func (r *Rng) Intn(n int) int {
	if n <= 0 {
		return 0
	}
	return r.IntN(n)
}
func (r *Rng) Bool(p float64) bool { return r.Float64() < p }
func (r *Rng) Range(lo, hi int) int { // inclusive
	if hi <= lo {
		return lo
	}
	return lo + r.IntN(hi-lo+1)
}
func PickOne[T any](r *Rng, xs []T) T { return xs[r.Intn(len(xs))] }

// DimSpec describes a generated dimension.
type DimSpec struct {
	Name    string
	Kind    string // i s b f
	Domain  []Val
	Missing float64 // probability the dim is absent from a point
	Pred    bool    // usable in predicates
}

// SchemaOpts tunes schema generation.
type SchemaOpts struct {
	MaxTables   int
	AllowView   bool
	AllowRaw    bool // PERCENTILE / SHIFT fields (not modelled)
	NoShift     bool // with AllowRaw: PERCENTILE only
	Resolutions []time.Duration
	RetMin      time.Duration
	RetMax      time.Duration
	Streams     int
	NoWhere     bool
	Partition   bool
}

// World is the generated universe of dims and value names for one plan.
type Universe struct {
	Dims     []DimSpec
	ValNames []string
	// NoConst: no constant operands in generated field expressions (keeps the
	// recorded finding C01-gap-row-const out of comparisons that cannot
	// recognise its phantom rows)
	NoConst bool
	// EmptyDims: probability of a point without any dimension
	EmptyDims float64
}

func genUniverse(r *Rng) *Universe {
	u := &Universe{ValNames: []string{"x", "y", "z", "w"}}
	u.Dims = append(u.Dims, DimSpec{Name: "da", Kind: "s", Domain: []Val{StrV("a"), StrV("b"), StrV("ab"), StrV("c")}, Missing: 0.0, Pred: true})
	u.Dims = append(u.Dims, DimSpec{Name: "db", Kind: "i", Domain: []Val{IntV(0), IntV(1), IntV(2), IntV(7)}, Missing: 0.0, Pred: true})
	if r.Bool(0.7) {
		u.Dims = append(u.Dims, DimSpec{Name: "dc", Kind: "b", Domain: []Val{BoolV(true), BoolV(false)}, Missing: 0.15, Pred: true})
	}
	if r.Bool(0.6) {
		// a free dim whose type varies between points
		u.Dims = append(u.Dims, DimSpec{Name: "dd", Kind: "*", Domain: []Val{IntV(1), FloatV(1), StrV("1"), FloatV(2.5), StrV("x")}, Missing: 0.3})
	}
	return u
}

func (u *Universe) predDims() []DimSpec {
	var out []DimSpec
	for _, d := range u.Dims {
		if d.Pred {
			out = append(out, d)
		}
	}
	return out
}

func genPred(r *Rng, u *Universe, depth int) *Pred {
	pd := u.predDims()
	if depth > 0 && r.Bool(0.35) {
		k := PickOne(r, []string{"and", "or", "not"})
		if k == "not" {
			return &Pred{Kind: "not", L: genPred(r, u, depth-1)}
		}
		return &Pred{Kind: k, L: genPred(r, u, depth-1), R: genPred(r, u, depth-1)}
	}
	d := PickOne(r, pd)
	if u.EmptyDims > 0 && r.Bool(0.15) {
		// (with points that lack every dimension these are the predicates
		// whose outcome is defined for them)
		return &Pred{Kind: PickOne(r, []string{"isnull", "notnull"}), Dim: d.Name}
	}
	switch d.Kind {
	case "s":
		switch r.Intn(5) {
		case 0:
			v := StrV(PickOne(r, []string{"a%", "%b", "%a%", "c"}))
			return &Pred{Kind: "like", Dim: d.Name, V: &v}
		case 1:
			n := r.Range(1, 3)
			var vs []Val
			for i := 0; i < n; i++ {
				vs = append(vs, PickOne(r, d.Domain))
			}
			return &Pred{Kind: "in", Dim: d.Name, Vs: vs}
		default:
			v := PickOne(r, d.Domain)
			return &Pred{Kind: "cmp", Dim: d.Name, Op: PickOne(r, []string{"=", "=", "<>", "<", ">"}), V: &v}
		}
	case "i":
		if r.Bool(0.2) {
			n := r.Range(1, 3)
			var vs []Val
			for i := 0; i < n; i++ {
				vs = append(vs, PickOne(r, d.Domain))
			}
			return &Pred{Kind: "in", Dim: d.Name, Vs: vs}
		}
		v := PickOne(r, d.Domain)
		return &Pred{Kind: "cmp", Dim: d.Name, Op: PickOne(r, []string{"=", "<>", "<", ">", "<=", ">="}), V: &v}
	case "b":
		if r.Bool(0.3) {
			return &Pred{Kind: PickOne(r, []string{"isnull", "notnull"}), Dim: d.Name}
		}
		v := PickOne(r, d.Domain)
		return &Pred{Kind: "cmp", Dim: d.Name, Op: "=", V: &v}
	}
	v := PickOne(r, d.Domain)
	return &Pred{Kind: "cmp", Dim: d.Name, Op: "=", V: &v}
}

func genAgg(r *Rng, u *Universe) *FieldExpr {
	e := &FieldExpr{Kind: "agg", Fn: PickOne(r, []string{"SUM", "SUM", "MIN", "MAX", "COUNT", "AVG", "WAVG"}), X: PickOne(r, u.ValNames[:3])}
	if e.Fn == "WAVG" {
		e.W = "w"
	}
	if r.Bool(0.15) && e.Fn != "COUNT" {
		e.Bnd = true
		e.Lo = float64(r.Range(-2, 2))
		e.Hi = e.Lo + float64(r.Range(1, 8))
	}
	return e
}

func genFieldExpr(r *Rng, u *Universe, prior []FieldDef, depth int) *FieldExpr {
	x := r.Float64()
	switch {
	case x < 0.5 || depth == 0:
		return genAgg(r, u)
	case x < 0.65:
		return &FieldExpr{Kind: "if", Cond: genPred(r, u, 1), Sub: genAgg(r, u)}
	default:
		operand := func() *FieldExpr {
			y := r.Float64()
			switch {
			case y < 0.25 && len(prior) > 0:
				return &FieldExpr{Kind: "ref", Ref: PickOne(r, prior).Name}
			case y < 0.4 && !u.NoConst:
				return &FieldExpr{Kind: "const", C: float64(r.Range(1, 5))}
			case y < 0.5 && depth > 1:
				return genFieldExpr(r, u, prior, depth-1)
			}
			return genAgg(r, u)
		}
		l := operand()
		rr := operand()
		if l.Kind == "const" && rr.Kind == "const" {
			rr = genAgg(r, u)
		}
		return &FieldExpr{Kind: "bin", Op: PickOne(r, []string{"+", "-", "*", "/"}), L: l, R: rr}
	}
}

var rawFieldChoices = []string{
	"PERCENTILE(x, 50, 0, 100, 1)",
	"PERCENTILE(y, 99, 0, 1000, 2)",
	"LOG2(SUM(x))",
	"LN(AVG(y))",
	"LOG10(MAX(z))",
	"SHIFT(SUM(x), '-1s')",
	"SHIFT(SUM(y), '-2s')",
}

func genTable(r *Rng, u *Universe, name, stream string, o SchemaOpts) TableDef {
	t := TableDef{Name: name, Stream: stream}
	nf := r.Range(1, 5)
	for i := 0; i < nf; i++ {
		fd := FieldDef{Name: fmt.Sprintf("f%d", i)}
		if o.AllowRaw && r.Bool(0.25) {
			if o.NoShift {
				fd.E = &FieldExpr{Kind: "raw", Raw: PickOne(r, rawFieldChoices[:5])}
			} else {
				fd.E = &FieldExpr{Kind: "raw", Raw: PickOne(r, rawFieldChoices)}
			}
		} else if r.Bool(0.12) {
			// plain value name: implicit SUM
			n := PickOne(r, u.ValNames[:3])
			if t.field(n) == nil {
				fd.Name = n
				fd.E = &FieldExpr{Kind: "ref", Ref: n}
			} else {
				fd.E = genFieldExpr(r, u, t.Fields, 2)
			}
		} else {
			fd.E = genFieldExpr(r, u, t.Fields, 2)
		}
		// two fields with the same expression are a separate subject (C06
		// reports that grouped queries double-count them): keep expressions
		// unique within a table
		dup := false
		for _, ex := range t.Fields {
			if resolvedSQL(&t, ex.E) == resolvedSQL(&t, fd.E) {
				dup = true
			}
		}
		if dup {
			continue
		}
		t.Fields = append(t.Fields, fd)
	}
	if len(t.Fields) == 0 {
		t.Fields = append(t.Fields, FieldDef{Name: "f0", E: &FieldExpr{Kind: "agg", Fn: "SUM", X: "x"}})
	}
	if !o.NoWhere && r.Bool(0.45) {
		t.Where = genPred(r, u, 2)
	}
	if r.Bool(0.5) {
		// explicit subset of dims
		for _, d := range u.Dims {
			if r.Bool(0.6) {
				t.GroupBy = append(t.GroupBy, d.Name)
			}
		}
	}
	res := PickOne(r, o.Resolutions)
	t.ResNanos = int64(res)
	ret := o.RetMin + time.Duration(r.Int64N(int64(o.RetMax-o.RetMin)+1))
	ret = ret / res * res
	if ret < 3*res {
		ret = 3 * res
	}
	t.RetNanos = int64(ret)
	minF := PickOne(r, []time.Duration{time.Millisecond, 20 * time.Millisecond, 500 * time.Millisecond, 5 * time.Second})
	maxF := minF * time.Duration(PickOne(r, []int{1, 3, 20, 400}))
	t.MinFlush, t.MaxFlush = int64(minF), int64(maxF)
	if o.Partition && r.Bool(0.6) {
		for _, d := range u.Dims {
			if d.Pred && r.Bool(0.5) {
				t.PartitionBy = append(t.PartitionBy, d.Name)
			}
		}
		if r.Bool(0.2) {
			// only a dimension that some points lack: those points have no
			// partition key at all
			for _, d := range u.Dims {
				if d.Pred && d.Missing > 0 {
					t.PartitionBy = []string{d.Name}
				}
			}
		}
		// the order in which a schema lists the keys is arbitrary
		r.Shuffle(len(t.PartitionBy), func(i, j int) { t.PartitionBy[i], t.PartitionBy[j] = t.PartitionBy[j], t.PartitionBy[i] })
	}
	return t
}

func genSchema(r *Rng, u *Universe, o SchemaOpts) []TableDef {
	if o.Streams <= 0 {
		o.Streams = 1
	}
	if len(o.Resolutions) == 0 {
		o.Resolutions = []time.Duration{time.Second, 2 * time.Second, 5 * time.Second, time.Minute}
	}
	n := r.Range(1, o.MaxTables)
	var ts []TableDef
	for i := 0; i < n; i++ {
		stream := "inbound"
		if o.Streams > 1 && i > 0 && r.Bool(0.3) {
			stream = "inbound2"
		}
		ts = append(ts, genTable(r, u, fmt.Sprintf("t%d", i), stream, o))
	}
	if o.AllowView && r.Bool(0.35) {
		base := ts[r.Intn(len(ts))]
		v := TableDef{Name: "v0", Stream: base.Stream, View: true, ViewOf: base.Name, ResNanos: base.ResNanos, RetNanos: base.RetNanos,
			MinFlush: base.MinFlush, MaxFlush: base.MaxFlush, PartitionBy: base.PartitionBy}
		// the view selects all base fields; its model fields are the base's
		v.Fields = append([]FieldDef(nil), base.Fields...)
		var vw *Pred
		if r.Bool(0.6) {
			vw = genPred(r, u, 1)
		}
		v.Where = vw
		if r.Bool(0.5) {
			for _, d := range u.Dims {
				if r.Bool(0.5) {
					v.GroupBy = append(v.GroupBy, d.Name)
				}
			}
		}
		if len(v.GroupBy) == 0 {
			v.GroupBy = base.GroupBy
		}
		v.SQLOverride, v.MWhere = viewSQL(&v, &base)
		ts = append(ts, v)
	}
	return ts
}

// viewSQL renders a view definition and returns the model's effective WHERE.
func viewSQL(v *TableDef, base *TableDef) (string, *Pred) {
	sql := "SELECT * FROM " + base.Name
	if v.Where != nil {
		sql += " WHERE " + v.Where.SQL()
	}
	sql += " GROUP BY "
	if len(v.GroupBy) == 0 {
		sql += "*"
	} else {
		for i, g := range v.GroupBy {
			if i > 0 {
				sql += ", "
			}
			sql += g
		}
	}
	sql += ", period(" + durSQL(v.Res()) + ")"
	eff := v.Where
	if base.Where != nil {
		if eff == nil {
			eff = base.Where
		} else {
			eff = &Pred{Kind: "and", L: eff, R: base.Where}
		}
	}
	return sql, eff
}

// PointOpts tunes point generation.
type PointOpts struct {
	SpanNanos int64 // timestamps are drawn from [-Span, 0] relative to AnchorNanos
	Anchor    int64 // offset from BaseNanos
	Streams   []string
	PowTwo    bool // values are distinct powers of two on a single value name
	NoOdd     bool // no non-numeric / unknown values
}

func genVal(r *Rng) Val {
	if r.Bool(0.05) {
		// large values that differ in the seventh significant digit
		return IntV(int64(PickOne(r, []int{1000000, 1000001, 1000002})))
	}
	switch r.Intn(6) {
	case 0:
		return IntV(int64(r.Range(-3, 9)))
	case 1:
		return FloatV(float64(r.Range(-8, 40)) * 0.25)
	case 2:
		return IntV(int64(r.Range(0, 3)))
	case 3:
		return FloatV(float64(r.Range(0, 1000)))
	case 4:
		return FloatV(float64(r.Range(1, 7)) * 1.5)
	}
	return IntV(int64(r.Range(1, 100)))
}

func genPoint(r *Rng, u *Universe, tables []TableDef, o PointOpts, prev []*Point, id int) *Point {
	p := &Point{ID: id, Stream: "inbound"}
	if len(o.Streams) > 0 {
		p.Stream = PickOne(r, o.Streams)
	}
	for _, d := range u.Dims {
		if r.Bool(d.Missing) {
			continue
		}
		p.Dims = append(p.Dims, KV{d.Name, PickOne(r, d.Domain)})
	}
	if u.EmptyDims > 0 && r.Bool(u.EmptyDims) {
		// a point without any dimension: its key is the empty byte map
		p.Dims = nil
	}
	// values
	if o.PowTwo {
		p.Vals = append(p.Vals, KV{"x", FloatV(float64(uint64(1) << uint(id%50)))})
	} else {
		for _, n := range u.ValNames {
			if r.Bool(0.6) {
				p.Vals = append(p.Vals, KV{n, genVal(r)})
			}
		}
		if !o.NoOdd {
			if r.Bool(0.1) {
				p.Vals = append(p.Vals, KV{"q", genVal(r)}) // unknown name
			}
			if r.Bool(0.08) {
				p.Vals = append(p.Vals, KV{PickOne(r, u.ValNames), PickOne(r, []Val{StrV("blah"), BoolV(true), NilV()})})
				// a later duplicate name would be ambiguous in a map; dedup below
			}
			if r.Bool(0.04) {
				p.Vals = []KV{{"x", StrV("only-bad")}}
			}
		}
		// dedup names (keep last)
		seen := map[string]int{}
		var out []KV
		for _, kv := range p.Vals {
			if i, ok := seen[kv.N]; ok {
				out[i] = kv
				continue
			}
			seen[kv.N] = len(out)
			out = append(out, kv)
		}
		p.Vals = out
		if len(p.Vals) == 0 {
			p.Vals = []KV{{"x", genVal(r)}}
		}
	}
	// timestamp
	res := int64(time.Second)
	if len(tables) > 0 {
		res = PickOne(r, tables).ResNanos
	}
	span := o.SpanNanos
	var ts int64
	switch r.Intn(8) {
	case 0: // exact boundary
		ts = -(r.Int64N(span/res+1) * res)
	case 1: // boundary + 1ns
		ts = -(r.Int64N(span/res+1) * res) + 1
	case 2: // boundary - 1ns
		ts = -(r.Int64N(span/res+1) * res) - 1
	case 3:
		if len(prev) > 0 {
			ts = PickOne(r, prev).TS - o.Anchor
			break
		}
		fallthrough
	default:
		ts = -r.Int64N(span + 1)
	}
	if ts > 0 {
		ts = 0
	}
	if ts < -span {
		ts = -span
	}
	p.TS = o.Anchor + ts
	fixUnknown(p, u, tables)
	return p
}

// fixUnknown adds dims so that no table WHERE or IF condition is Unknown for
// the point (comparisons with missing dims have no defined result).
func fixUnknown(p *Point, u *Universe, tables []TableDef) {
	r := NewRng(uint64(p.ID)+77, 5)
	for iter := 0; iter < 4; iter++ {
		need := map[string]bool{}
		for i := range tables {
			t := &tables[i]
			if t.Stream != p.Stream {
				continue
			}
			var preds []*Pred
			if t.Where != nil {
				preds = append(preds, t.Where)
			}
			for _, f := range t.Fields {
				exprPreds(f.E, &preds)
			}
			for _, pr := range preds {
				if EvalPred(pr, p.Dims) == pUnknown {
					predDims(pr, need)
				}
			}
		}
		changed := false
		for _, d := range u.Dims {
			if need[d.Name] {
				if _, ok := kvGet(p.Dims, d.Name); !ok {
					p.Dims = append(p.Dims, KV{d.Name, PickOne(r, d.Domain)})
					changed = true
				}
			}
		}
		if !changed {
			return
		}
	}
}

// resolvedSQL renders an expression with references to earlier fields
// replaced by their definitions.
func resolvedSQL(t *TableDef, e *FieldExpr) string {
	switch e.Kind {
	case "ref":
		if f := t.field(e.Ref); f != nil && !(f.E.Kind == "ref" && f.E.Ref == e.Ref) {
			return resolvedSQL(t, f.E)
		}
		return "SUM(" + e.Ref + ")"
	case "bin":
		return "(" + resolvedSQL(t, e.L) + " " + e.Op + " " + resolvedSQL(t, e.R) + ")"
	case "if":
		return "IF(" + e.Cond.SQL() + ", " + resolvedSQL(t, e.Sub) + ")"
	case "agg":
		if e.Fn == "WAVG" {
			// zenodb identifies WAVG(x, w) and AVG(x) with each other (both print
			// as AVG(x)); a table holding both is a separate subject (C06)
			c := *e
			c.Fn, c.W = "AVG", ""
			return c.SQL()
		}
	}
	return e.SQL()
}

// maybeYield switches the yield layer on for a plan (Cfg.Extra["yield"] is the
// per-mille rate of paused site passes).
func maybeYield(r *Rng, p *Plan, prob float64) {
	if r.Bool(prob) {
		if p.Cfg.Extra == nil {
			p.Cfg.Extra = map[string]int64{}
		}
		p.Cfg.Extra["yield"] = PickOne(r, []int64{50, 150, 300})
	}
}
